"""Projection of the reports rp2 wrote (raw cells from harness.docsread) onto the abstract documents of spec/Rp2Docs.tla.

The projection locates tables by their (translated) titles, turns figures into lattice integers with exact fractions (the same alpha
as the ledger pipeline, at double precision: the reports hold floats), turns "k/n" notes, dates and type strings into integers and
enumerations, and resolves every hyperlink to WHAT IT LEADS TO (the transaction found in the target row), never comparing row numbers.
It contains no accounting logic: whether a document is right is decided by TLC (spec/Trace_Docs.tla)."""
import gettext
import math
import os
import re
from datetime import datetime, timedelta
from fractions import Fraction

from . import common, docsread
from .rp2api import BASE, BASE_DATE, Alpha, acct_code

DOC_TOL = Fraction(4, 10**15)
TYPES = ["airdrop", "buy", "donate", "fee", "gift", "hardfork", "income", "interest", "lost", "mining", "move", "sell", "staking", "wages"]


class Lex:
    """translated strings of the tree under test (its own gettext catalogs) -> canonical names; untranslated forms are accepted too"""

    def __init__(self, lang):
        loc = os.path.join(common.REPO, "src", "rp2", "locales")
        try:
            self.tr = gettext.translation("messages", localedir=loc, languages=[lang]).gettext
        except (FileNotFoundError, OSError):
            self.tr = lambda s: s
        self.types = {}
        for t in TYPES:
            self.types[t.upper()] = t
            self.types[self.tr(t).upper()] = t
        self.words = {}
        for w in ("YES", "NO", "LONG", "SHORT", "Total", "Grand Total"):
            self.words[w] = w
            self.words[self.tr(w)] = w

    def t(self, s):
        return {s, self.tr(s)}

    def fmt(self, pattern, *args):
        return {pattern.format(*args), self.tr(pattern).format(*args)}

    def type_of(self, s):
        return self.types.get(str(s).upper().strip(), "?" + str(s))

    def word(self, s):
        return self.words.get(s, "?" + str(s))


class DocAlpha(Alpha):
    """alpha for figures read from documents: floats, i.e. exact up to double precision"""

    def __init__(self, U, P, Q):
        super().__init__(U, P, Q)
        self.bad = []

    def _int(self, v):
        n = round(v)
        err = abs(v - n)
        if err > DOC_TOL * max(1, abs(n)):
            self.exact = False
            if len(self.bad) < 5:
                self.bad.append(f"{float(v)!r} is not within {float(DOC_TOL)} relative of a lattice point")
        if abs(n) > common.INT_MAX // 64:
            self.overflow = True
        return int(n)

    def price(self, x):
        return self._int(Fraction(x) / self.P)

    def frac(self, x):
        """a dimensionless ratio (percentage cell) as a small exact rational"""
        v = Fraction(x)
        r = v.limit_denominator(10**7)
        if abs(v - r) > DOC_TOL * max(1, abs(r)):
            self.exact = False
            if len(self.bad) < 5:
                self.bad.append(f"ratio {float(v)!r} is not a small rational")
        return [r.numerator, r.denominator]

    def unit(self, x):
        """fiat per coin as a rational of money units per crypto unit"""
        v = Fraction(x) * self.Q / self.P
        r = v.limit_denominator(10**6)
        if abs(v - r) > DOC_TOL * max(1, abs(r)):
            self.exact = False
            if len(self.bad) < 5:
                self.bad.append(f"unit price {float(v)!r} is not a small rational")
        if abs(r.numerator) > common.INT_MAX // 4096 or r.denominator > common.INT_MAX // 4096:
            self.overflow = True
        return [r.numerator, r.denominator]


def _v(row, i):
    if i < len(row) and row[i] is not None:
        return row[i]
    return None


def _s(row, i):
    c = _v(row, i)
    return "" if c is None or c[1] is None else str(c[1])


def _num(row, i):
    c = _v(row, i)
    if c is None or c[1] in (None, ""):
        return None
    try:
        return Fraction(str(c[1]))
    except (ValueError, ZeroDivisionError):
        return None


def _f(row, i):
    c = _v(row, i)
    return None if c is None else c[2]


def _ts(s):
    """timestamp text -> (instant, offset) relative to the specification's epoch, or (None, None)"""
    try:
        dt = datetime.fromisoformat(str(s).strip())
        if dt.tzinfo is None:
            return None, None
        off = int(dt.utcoffset().total_seconds())
        t = (dt - BASE).total_seconds()
        if t != int(t):
            return None, None
        return int(t), off
    except (ValueError, TypeError):
        return None, None


def _uid_to_id(uid, h, table):
    """abstract id of the transaction a report row describes: 't<n>' is position n of the history; an OUT row that carries the uid of
    an acquisition is the artificial fee disposal of that acquisition"""
    m = re.fullmatch(r"t(\d+)", str(uid).strip())
    if not m:
        return 0
    n = int(m.group(1))
    if n < 1 or n > len(h):
        return 0
    cls = h[n - 1]["cls"]
    if cls == table:
        return n
    if table == "out" and cls == "in" and h[n - 1]["fee"] > 0:
        parents = [p for p, x in enumerate(h) if x["cls"] == "in" and x["fee"] > 0]
        return len(h) + 1 + parents.index(n - 1)
    return 0


_NOTE = re.compile(r"^(\d+)/(\d+): ")


def _note(s):
    m = _NOTE.match(str(s))
    return (int(m.group(1)), int(m.group(2))) if m else (-1, -1)


def _single_string_row(row):
    cells = [c for c in row if c is not None and c[1] not in (None, "")]
    return len(cells) == 1 and row[0] is not None and row[0][0] == "s" and row[0][1] not in (None, "")


def _find_title(rows, titles, start=0):
    for i in range(start, len(rows)):
        if rows[i] and _single_string_row(rows[i]) and rows[i][0][1] in titles:
            return i
    return -1


def _data_rows(rows, title_idx, header_rows=2):
    """(index, row) of the data rows of the table whose title row is title_idx: they follow the header rows up to the first empty row"""
    res = []
    i = title_idx + 1 + header_rows
    while i < len(rows) and rows[i] and any(c is not None and c[1] not in (None, "") for c in rows[i]):
        if _single_string_row(rows[i]) and i + 1 < len(rows) and rows[i + 1] and not _single_string_row(rows[i + 1]) is False:
            pass
        res.append((i, rows[i]))
        i += 1
    return res


def _acct(e, h):
    try:
        return acct_code(e, h)
    except (IndexError, KeyError):
        return 0


def _holder_code(hname):
    from .rp2api import HOLDERS  # pylint: disable=import-outside-toplevel

    for k, v in HOLDERS.items():
        if v == hname:
            return k
    return 0


def _exch_code(ename):
    from .rp2api import EXCHANGES  # pylint: disable=import-outside-toplevel

    for k, v in EXCHANGES.items():
        if v == ename:
            return k
    return 0


def _bool_word(lex, s, yes, no):
    w = lex.word(s)
    if w == yes:
        return True
    if w == no:
        return False
    return None


class Problems:
    """structural problems met while reading a document (missing table, unreadable cell): judged by the specification as a failing clause"""

    def __init__(self):
        self.items = []

    def add(self, what):
        if what not in self.items:
            self.items.append(what)


# ---- rp2_full_report ------------------------------------------------------------------------------------------------
def proj_full(doc, assets, histories, lex, mk_alpha, prob):
    """assets: names in processing order; histories: {asset: abstract history}; mk_alpha(): a fresh DocAlpha"""
    sheets = doc["sheets"]
    out = {"assets": {}, "summary": [], "legend": {"method": "", "from": "", "to": ""}, "ex": True, "sheets": list(doc["order"])}
    rowmaps = {}  # sheet name -> {1-based row: [asset, table, id]}
    detailmaps = {}  # sheet name -> {1-based row: [asset, index in detail]}
    al = mk_alpha()
    for a in assets:
        h = histories[a]
        inout = next((sheets[n] for n in lex.fmt("{} In-Out", a) if n in sheets), None)
        inout_name = next((n for n in lex.fmt("{} In-Out", a) if n in sheets), None)
        tax = next((sheets[n] for n in lex.fmt("{} Tax", a) if n in sheets), None)
        tax_name = next((n for n in lex.fmt("{} Tax", a) if n in sheets), None)
        A = {"ins": [], "outs": [], "intras": [], "summary": [], "balances": [], "totals": [], "avg": [0, 1], "detail": [], "present": True}
        if inout is None or tax is None:
            A["present"] = False
            prob.add(f"full report has no sheets for asset {a}")
            out["assets"][a] = A
            continue
        rmap = rowmaps.setdefault(inout_name, {})
        ti = _find_title(inout, lex.t("In-Flow Detail"))
        to_ = _find_title(inout, lex.t("Out-Flow Detail"))
        tt = _find_title(inout, lex.t("Intra-Flow Detail"))
        if min(ti, to_, tt) < 0:
            prob.add(f"full report: a transaction table of {a} is missing")
        if ti >= 0:
            for i, r in _data_rows(inout, ti):
                t, off = _ts(_s(r, 1))
                tx = _uid_to_id(_s(r, 14), h, "in")
                sold = _num(r, 0)
                amt = _num(r, 7)
                A["ins"].append({"tx": tx, "t": t if t is not None else -1, "off": off or 0, "asset": _s(r, 2), "acct": _acct(_s(r, 3), _s(r, 4)), "type": lex.type_of(_s(r, 5)),
                                 "price": al.price(_num(r, 6) or 0), "amt": al.amt(amt or 0), "run": al.amt(_num(r, 8) or 0), "ffee": al.money(_num(r, 9) or 0),
                                 "fin": al.money(_num(r, 10) or 0), "fwf": al.money(_num(r, 11) or 0), "taxable": _bool_word(lex, _s(r, 12), "YES", "NO") is True,
                                 "hassold": sold is not None, "sold": al.amt((sold or 0) * (amt or 0))})
                rmap[i + 1] = [a, "in", tx]
        if to_ >= 0:
            for i, r in _data_rows(inout, to_):
                t, off = _ts(_s(r, 1))
                tx = _uid_to_id(_s(r, 14), h, "out")
                A["outs"].append({"tx": tx, "t": t if t is not None else -1, "off": off or 0, "asset": _s(r, 2), "acct": _acct(_s(r, 3), _s(r, 4)), "type": lex.type_of(_s(r, 5)),
                                  "price": al.price(_num(r, 6) or 0), "amt": al.amt(_num(r, 7) or 0), "fee": al.amt(_num(r, 8) or 0), "run": al.amt(_num(r, 9) or 0),
                                  "runfee": al.amt(_num(r, 10) or 0), "fout": al.money(_num(r, 11) or 0), "ffee": al.money(_num(r, 12) or 0),
                                  "taxable": _bool_word(lex, _s(r, 13), "YES", "NO") is True})
                rmap[i + 1] = [a, "out", tx]
        if tt >= 0:
            for i, r in _data_rows(inout, tt):
                t, off = _ts(_s(r, 1))
                tx = _uid_to_id(_s(r, 14), h, "intra")
                A["intras"].append({"tx": tx, "t": t if t is not None else -1, "off": off or 0, "asset": _s(r, 2), "a1": _acct(_s(r, 3), _s(r, 4)), "a2": _acct(_s(r, 5), _s(r, 6)),
                                    "price": al.price(_num(r, 7) or 0), "sent": al.amt(_num(r, 8) or 0), "recv": al.amt(_num(r, 9) or 0), "fee": al.amt(_num(r, 10) or 0),
                                    "runfee": al.amt(_num(r, 11) or 0), "ffee": al.money(_num(r, 12) or 0), "taxable": _bool_word(lex, _s(r, 13), "YES", "NO") is True})
                rmap[i + 1] = [a, "intra", tx]
        # Tax sheet
        ts_ = _find_title(tax, lex.t("Gain / Loss Summary"))
        tb = _find_title(tax, lex.t("Account Balances"))
        tp = _find_title(tax, lex.t("Average Price"))
        td = _find_title(tax, lex.t("Gain / Loss Detail"))
        if min(ts_, tb, tp, td) < 0:
            prob.add(f"full report: a table of the Tax sheet of {a} is missing")
        if ts_ >= 0:
            for _i, r in _data_rows(tax, ts_):
                A["summary"].append(_summary_row(r, lex, al))
        if tb >= 0:
            for _i, r in _data_rows(tax, tb):
                if lex.word(_s(r, 0)) == "Total":
                    A["totals"].append([_holder_code(_s(r, 1)), al.amt(_num(r, 6) or 0)])
                else:
                    A["balances"].append([_acct(_s(r, 0), _s(r, 1)), al.amt(_num(r, 3) or 0), al.amt(_num(r, 4) or 0), al.amt(_num(r, 5) or 0), al.amt(_num(r, 6) or 0)])
        if tp >= 0 and tp + 3 < len(tax):
            v = _num(tax[tp + 3], 0)
            if v is None:
                prob.add(f"full report: average price of {a} is not a number")
            else:
                A["avg"] = al.unit(v)
        if td >= 0:
            dmap = detailmaps.setdefault(tax_name, {})
            for i, r in _data_rows(tax, td):
                A["detail"].append(_detail_row(r, a, h, lex, al))
                dmap[i + 1] = [a, len(A["detail"])]
        out["assets"][a] = A
    # second pass: resolve links (needs the row maps of every sheet)
    for a in assets:
        for d in out["assets"][a]["detail"]:
            for key in ("evlinks", "lotlinks"):
                d[key] = [list(x) for x in sorted({tuple(_resolve(f, rowmaps)) for f in d.pop("_" + key)})]
    # Summary sheet
    ssheet = next((sheets[n] for n in lex.t("Summary") if n in sheets), None)
    if ssheet is None:
        prob.add("full report has no Summary sheet")
    else:
        ty = _find_title(ssheet, lex.t("Yearly Gain / Loss Summary"))
        if ty < 0:
            prob.add("full report: yearly summary table is missing")
        else:
            for _i, r in _data_rows(ssheet, ty):
                row = _summary_row(r, lex, al)
                links = sorted({tuple(_resolve_detail(_f(r, c), detailmaps)) for c in range(8) if _v(r, c) is not None})
                out["summary"].append({"asset": _s(r, 1), "row": row, "links": [list(x) for x in links]})
    lsheet = next((sheets[n] for n in lex.t("Legend") if n in sheets), None)
    if lsheet is None:
        prob.add("full report has no Legend sheet")
    else:
        for i, r in enumerate(lsheet[:100]):
            if r and _s(r, 0) in lex.t("Accounting Method"):
                out["legend"] = {"method": _s(r, 1), "from": _s(lsheet[i + 1], 1) if i + 1 < len(lsheet) else "", "to": _s(lsheet[i + 2], 1) if i + 2 < len(lsheet) else ""}
                break
        else:
            prob.add("full report: Legend has no accounting method line")
    out["ex"] = bool(al.exact)
    out["bad"] = al.bad
    out["overflow"] = bool(al.overflow)
    return out


def _summary_row(r, lex, al):
    y = _num(r, 0)
    return [int(y) if y is not None and y == int(y) else -1, lex.type_of(_s(r, 4)), _bool_word(lex, _s(r, 3), "LONG", "SHORT") is True, al.amt(_num(r, 5) or 0), al.money(_num(r, 6) or 0),
            al.money(_num(r, 7) or 0), al.money(_num(r, 2) or 0)]


def _detail_row(r, a, h, lex, al):
    evtxt = _s(r, 6)
    cls, _, ty = evtxt.partition(" / ")
    cls = cls.strip().lower()
    ev = _uid_to_id(_s(r, 10), h, cls if cls in ("in", "out", "intra") else "in")
    evt, evoff = _ts(_s(r, 5))
    evk, evn = _note(_s(r, 11))
    has_lot = _s(r, 18) != "" or _s(r, 12) != ""
    lot = _uid_to_id(_s(r, 18), h, "in") if has_lot else 0
    lott, lotoff = _ts(_s(r, 12)) if has_lot else (0, 0)
    lotk, lotn = _note(_s(r, 19)) if has_lot else (0, 0)
    return {"asset": _s(r, 1), "amt": al.amt(_num(r, 0) or 0), "run": al.amt(_num(r, 2) or 0), "gain": al.money(_num(r, 3) or 0), "long": _bool_word(lex, _s(r, 4), "LONG", "SHORT") is True,
            "ev": ev, "evcls": cls, "evtype": lex.type_of(ty), "evt": evt if evt is not None else -1, "evoff": evoff or 0, "evpct": al.frac(_num(r, 7) or 0), "proc": al.money(_num(r, 8) or 0),
            "evprice": al.price(_num(r, 9) or 0), "evk": evk, "evn": evn,
            "haslot": bool(has_lot), "lot": lot, "lott": lott if lott is not None else -1, "lotoff": lotoff or 0, "lotpct": al.frac(_num(r, 13) or 0), "lotfiat": al.money(_num(r, 14) or 0),
            "lotfee": al.money(_num(r, 15) or 0), "cost": al.money(_num(r, 16) or 0), "lotprice": al.price(_num(r, 17) or 0), "lotk": lotk, "lotn": lotn,
            "_evlinks": sorted({_f(r, c) or "" for c in range(5, 12) if _v(r, c) is not None}),
            "_lotlinks": sorted({_f(r, c) or "" for c in range(12, 20) if _v(r, c) is not None and _v(r, c)[1] not in (None, "")}) if has_lot else []}


def _resolve(formula, rowmaps):
    """what a transaction link leads to: [asset, table, id]; no link: ["", "", 0]; a link to something that is not a transaction row: ["?", "", 0]"""
    if not formula:
        return ["", "", 0]
    tgt = docsread.hyperlink_target(formula)
    if tgt is None:
        return ["?", "", 0]
    sheet, row = tgt
    hit = rowmaps.get(sheet, {}).get(row)
    return list(hit) if hit else ["?", "", 0]


def _resolve_detail(formula, detailmaps):
    """what a summary link leads to: [asset, index of the gain/loss detail row]"""
    if not formula:
        return ["", 0]
    tgt = docsread.hyperlink_target(formula)
    if tgt is None:
        return ["?", 0]
    sheet, row = tgt
    hit = detailmaps.get(sheet, {}).get(row)
    return list(hit) if hit else ["?", 0]


# ---- tax_report_us / tax_report_ie --------------------------------------------------------------------------------------
def _date_day(s, fmt):
    try:
        return (datetime.strptime(str(s).strip(), fmt).date() - BASE_DATE).days
    except (ValueError, TypeError):
        return -999999


def proj_tax(doc, country, histories, mk_alpha, prob):
    fmt = "%m/%d/%Y" if country == "us" else "%Y/%m/%d"
    al = mk_alpha()
    rows = []
    sheets = []
    for name in doc["order"]:
        if name == "Legend":
            continue
        sheets.append(name)
        srows = doc["sheets"][name]
        for r in srows[7:]:
            if not r or not any(c is not None and c[1] not in (None, "") for c in r):
                continue
            a = _s(r, 1)
            h = histories.get(a)
            if h is None:
                prob.add(f"tax report row for unknown asset {a!r}")
                continue
            cls, _, ty = _s(r, 9).partition(" / ")
            cls = cls.strip().lower()
            ev = _uid_to_id(_s(r, 13), h, cls if cls in ("in", "out", "intra") else "in")
            has_lot = _s(r, 11) != "" or _s(r, 2) != ""
            lot = _uid_to_id(_s(r, 11), h, "in") if has_lot else 0
            evk, evn = _note(_s(r, 12))
            lotk, lotn = _note(_s(r, 10)) if has_lot else (0, 0)
            t, off = _ts(_s(r, 15))
            rows.append({"sheet": name, "asset": a, "ev": ev, "lot": lot, "amt": al.amt(_num(r, 0) or 0), "proc": al.money(_num(r, 4) or 0),
                         "cost": al.money(_num(r, 5) or 0) if has_lot else 0, "hascost": _num(r, 5) is not None, "gain": al.money(_num(r, 8) or 0),
                         "long": _s(r, 14) == "LONG", "longtxt": _s(r, 14), "evcls": cls, "evtype": ty.strip().lower(),
                         "sold": _date_day(_s(r, 3), fmt), "acquired": _date_day(_s(r, 2), fmt) if has_lot else -999999, "haslot": bool(has_lot),
                         "evk": evk, "evn": evn, "lotk": lotk, "lotn": lotn, "t": t if t is not None else -1, "off": off or 0})
    return {"sheets": sheets, "rows": rows, "ex": bool(al.exact), "overflow": bool(al.overflow)}


# ---- open_positions -----------------------------------------------------------------------------------------------------
def proj_open(doc, lex, mk_alpha, prob):
    al = mk_alpha()
    sheets = doc["sheets"]
    res = {"asset_rows": [], "exchange_rows": [], "inputs": [], "totals": [], "ex": True}
    sa = next((sheets[n] for n in lex.t("Asset") if n in sheets), None)
    se = next((sheets[n] for n in lex.t("Asset - Exchange") if n in sheets), None)
    si = next((sheets[n] for n in lex.t("Input") if n in sheets), None)
    if sa is None or se is None or si is None:
        prob.add("open positions report lacks one of its sheets")
        return res
    for r in sa[3:]:
        if not r or _s(r, 0) == "":
            continue
        w = lex.word(_s(r, 0))
        if w in ("Total", "Grand Total"):
            res["totals"].append([w, _holder_code(_s(r, 1))])
            continue
        res["asset_rows"].append({"asset": _s(r, 0), "holder": _holder_code(_s(r, 1)), "bal": al.amt(_num(r, 2) or 0), "unit": al.unit(_num(r, 3) or 0),
                                  "cost": al.money(_num(r, 4) or 0), "weight": al.frac(_num(r, 5) or 0)})
    for r in se[3:]:
        if not r or _s(r, 0) == "":
            continue
        if lex.word(_s(r, 0)) in ("Total", "Grand Total"):
            continue
        res["exchange_rows"].append({"asset": _s(r, 0), "holder": _holder_code(_s(r, 1)), "exch": _exch_code(_s(r, 2)), "bal": al.amt(_num(r, 3) or 0), "unit": al.unit(_num(r, 4) or 0),
                                     "cost": al.money(_num(r, 5) or 0), "weight": al.frac(_num(r, 6) or 0)})
    for r in si[3:]:
        if r and _s(r, 0) != "":
            res["inputs"].append(_s(r, 0))
    res["ex"] = bool(al.exact)
    res["overflow"] = bool(al.overflow)
    return res


# ---- tax_report_jp ----------------------------------------------------------------------------------------------------------
_REF = re.compile(r"^(?:of:)?='([^']*)'\.([A-Z]+)(\d+)$")
_CLOSE = re.compile(r"^(?:of:)?=E(\d+)\+F(\d+)-H(\d+)$")


def _ref(formula):
    m = _REF.match(formula or "")
    return [m.group(1), m.group(2), int(m.group(3))] if m else None


def proj_jp(doc, assets, lex, mk_alpha, prob):
    al = mk_alpha()
    res = {"asset_sheets": [], "summary_sheets": [], "other_sheets": [], "ex": True}
    names = {}
    for a in assets:
        for y in range(2005, 2045):
            for n in lex.fmt("{}_{}", a, y):
                names[n] = (a, y)
    sums = {}
    for y in range(2005, 2045):
        for n in lex.fmt("{}_Summary", y):
            sums[n] = y
    for name in doc["order"]:
        rows = doc["sheets"][name]
        if name in names:
            a, y = names[name]
            txs = []
            close = 0
            opening = None
            for i, r in enumerate(rows):
                if i >= 21 and close == 0 and r and _v(r, 0) is not None and _v(r, 0)[0] == "n" and _v(r, 1) is not None and _v(r, 1)[0] == "n" and _s(r, 3) != "":
                    syen = _num(r, 7)
                    txs.append({"month": int(_num(r, 0) or 0), "day": int(_num(r, 1) or 0), "client": _s(r, 2), "type": _s(r, 3).lower(),
                                "haspur": _num(r, 4) is not None, "pamt": al.amt(_num(r, 4) or 0), "pyen": al.money(_num(r, 5) or 0),
                                "hassale": _v(r, 6) is not None and _num(r, 6) is not None, "samt": al.amt(_num(r, 6) or 0), "syennum": syen is not None, "syen": al.money(syen or 0),
                                "fee": al.money(_num(r, 8) or 0)})
                f = _f(r, 8)
                if f and _CLOSE.match(f):
                    close = i + 1
                    c1 = _v(r, 4)
                    c2 = _v(rows[i + 1], 4) if i + 1 < len(rows) else None
                    opening = [_ref(c1[2]) if c1 is not None and c1[2] else None, _ref(c2[2]) if c2 is not None and c2[2] else None,
                               (c1 is not None and c1[2] is None and _num(r, 4) == 0), (c2 is not None and c2[2] is None and _num(rows[i + 1], 4) == 0)]
            if close == 0:
                prob.add(f"jp report: sheet {name} has no closing balance line")
                opening = [None, None, False, False]
            res["asset_sheets"].append({"name": name, "asset": a, "year": y, "txs": txs, "close": close,
                                        "open_crypto": opening[0] or ["", "", 0], "open_yen": opening[1] or ["", "", 0], "open_zero": bool(opening[2] and opening[3]),
                                        "open_has_ref": opening[0] is not None or opening[1] is not None, "label": _s(rows[1], 7) if len(rows) > 1 else ""})
        elif name in sums:
            lines = []
            for r in rows[7:]:
                refs = [_ref(_f(r, c)) for c in (3, 4, 5, 6)]
                if r and _s(r, 0) != "" and any(refs):
                    lines.append({"asset": _s(r, 0), "donations": al.money(_num(r, 1) or 0), "gifts": al.money(_num(r, 2) or 0),
                                  "refs": [x[0] if x else "" for x in refs], "cols": [x[1] if x else "" for x in refs], "rows": [x[2] if x else 0 for x in refs]})
            res["summary_sheets"].append({"name": name, "year": sums[name], "lines": lines})
        elif name != "Legend":
            res["other_sheets"].append(name)
    res["ex"] = bool(al.exact)
    res["overflow"] = bool(al.overflow)
    return res


def legend_dates(day_from, day_to):
    """the texts a date filter may legitimately be rendered as in a Legend"""
    def one(d):
        if d is None:
            return ["non-specified"]
        dt = BASE_DATE + timedelta(days=d)
        return [dt.isoformat()]
    return one(day_from), one(day_to)


def lcm_all(hs):
    """money denominator of a run: a common multiple of every amount that can be a denominator in any asset - event totals and lot
    amounts (pro-rating) and the total holding after every transaction (per-unit cost of the open positions)"""
    from .rp2api import lcm_q  # pylint: disable=import-outside-toplevel

    q = 1
    q2 = 1
    for h in hs:
        k = lcm_q(h)
        q = q * k // math.gcd(q, k)
        held = 0
        for x in sorted(h, key=lambda y: y["t"]):
            if x["cls"] == "in":
                held += x["amt"] - x["fee"]
            elif x["cls"] == "out":
                held -= x["amt"] + x["fee"]
            else:
                held -= x["fee"]
            if held > 0:
                q2 = q2 * held // math.gcd(q2, held)
    # (the cost of unsold lot parts has lot amounts as denominators and is then divided by the holding: the product covers both)
    return q * q2
