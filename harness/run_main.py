"""End-to-end checks on the country entry points: C16 (supported option combinations complete), the
CLI half of C12 (bad input / options: non-zero exit, error message, no report), C17 (results depend
only on the input) and C18 (no network, no subprocess, confined writes).  TLC enumerates the option
matrix (spec/MC_Run.tla), the harness concretises and runs every tuple in a fresh process, and TLC
judges what the run left behind against spec/Rp2Run.tla (spec/Trace_Run.tla)."""
import ast
import copy
import glob
import json
import os
import random
import sys

from . import common, gen, pool, tlc

NO_DAY, NO_TO = -1000000, 1000000
ASSUMPTIONS = [
    "which languages ship templates is read from the data directory of the tree under test (a language counts when every report of the country has a template or template link)",
    "the product constants (accepted methods, generators, default languages) are stated in spec/Rp2Run.tla from the documentation and property text",
    "fork-mode runs execute the entry point in a child forked from a process that has imported rp2 but never run it; a sample goes through a new interpreter and through the console script",
    "option combinations the documentation leaves open (rp2_jp with both -f and -t; a schedule naming a method the country does not accept) are not judged",
]


def shipped_languages(country):
    d = os.path.join(common.REPO, "src", "rp2", "plugin", "report", "data", country)
    gens = ["open_positions", "rp2_full_report"] + ({"us": ["tax_report_us"], "ie": ["tax_report_ie"], "jp": ["tax_report_jp"]}.get(country, []))
    langs = None
    for g in gens:
        have = set()
        for p in glob.glob(os.path.join(d, f"template_{g}_*")):
            base = os.path.basename(p)
            if base.endswith((".ods", ".txt")):
                have.add(base[len(f"template_{g}_"):-4])
        langs = have if langs is None else langs & have
    return sorted(langs or [])


def model_check_run(with_faults=True):
    cfg = os.path.join(common.scratch(), "mc_run.cfg")
    with open(cfg, "w", encoding="utf-8") as f:
        f.write(f"CONSTANT WithFaults = {'TRUE' if with_faults else 'FALSE'}\nINIT Init\nNEXT Next\nINVARIANT DefaultsAreSupported\nINVARIANT ReportsNamedApart\nINVARIANT Emit\nCHECK_DEADLOCK FALSE\n")
    rc, out = tlc.run_tlc("MC_Run.tla", cfg, workers=common.NCPU, tag="mcrun", heap="6g", timeout=3000)
    gen_, dist = tlc.parse_stats(out)
    res = {"module": "MC_Run", "states": dist, "transitions": gen_}
    if "is violated" in out:
        res["violation"] = [l for l in out.splitlines() if "is violated" in l][0]
        return res, []
    tuples = []
    for line in out.splitlines():
        line = line.strip()
        if line.startswith('"R|'):
            body, verdict = line[3:-1].rsplit("|", 1)
            tuples.append((json.loads(body.replace('\\"', '"')), verdict))
    tuples.sort(key=lambda tv: json.dumps(tv[0], sort_keys=True))       # (TLC's workers print in no particular order)
    if tlc.tlc_failed(rc, out) or not tuples:
        raise common.MachineryError("MC_Run failed:\n" + "\n".join(l for l in out.splitlines() if not l.startswith('"R|'))[-3000:])
    return res, tuples


def min_year(assets):
    from datetime import timedelta  # pylint: disable=import-outside-toplevel

    from .rp2api import BASE_DATE  # pylint: disable=import-outside-toplevel

    d = min((x["t"] + x["off"]) // 86400 for h in assets.values() for x in h)
    return (BASE_DATE + timedelta(days=d)).year


def min_taxable_year(assets):
    """calendar year of the earliest taxable event (the first year for which a schedule must name a method); 9999 if nothing is taxable"""
    from datetime import timedelta  # pylint: disable=import-outside-toplevel

    from .rp2api import BASE_DATE  # pylint: disable=import-outside-toplevel

    earn = {"airdrop", "hardfork", "income", "interest", "mining", "staking", "wages"}
    days = [(x["t"] + x["off"]) // 86400 for h in assets.values() for x in h
            if x["cls"] == "out" or (x["cls"] == "in" and (x["type"] in earn or x["fee"] > 0)) or (x["cls"] == "intra" and x["fee"] > 0)]
    return (BASE_DATE + timedelta(days=min(days))).year if days else 9999


def sched_for(name, country, assets, rnd):
    """the schedule shapes of MC_Run, placed relative to the input's first year, with methods the country accepts"""
    y = min_year(assets)
    ms = ["fifo", "lifo", "hifo", "lofo"] if country in ("us", "generic") else ["fifo"]
    m = lambda: rnd.choice(ms)  # noqa: E731
    return {"none": None, "single1970": [[1970, m()]], "singlemin": [[y, m()]], "two": [[1970, m()], [y + 1, m()]], "uncovered": [[y + 2, m()]],
            "three": [[y, m()], [y + 1, m()], [y + 2, m()]]}[name]


def inputs(rnd, tier):
    """generated valid inputs: single / multi asset, sparse years, fully sold, income only"""
    hs, dist, trans, _ = gen.histories("Y", 4)
    full = [h for h in hs if len(h) == 4]
    sold = [h for h in full if h[-1]["cls"] == "out" and sum(x["amt"] for x in h if x["cls"] == "in") == sum(x["amt"] + x["fee"] for x in h if x["cls"] != "in")]
    income = [h for h in full if all(x["cls"] == "in" and x["type"] == "interest" for x in h)]
    sparse = [h for h in full if len({(x["t"] // 86400) // 365 for x in h}) >= 3]
    mixed = [h for h in full if {x["cls"] for x in h} == {"in", "out", "intra"}]
    # several exchanges and holders (joint filing), crypto-fee acquisitions, every transaction type
    hm, dm, tm, _ = gen.histories("M", 3)
    joint = [h for h in hm if len(h) == 3 and len({x["a1"] % 10 for x in h if x["cls"] == "in"}) >= 2]
    hf, df, tf, _ = gen.histories("F", 3)
    feey = [h for h in hf if len(h) == 3 and any(x["cls"] == "in" and x["fee"] > 0 for x in h)]
    ht, dt, tt, _ = gen.histories("T", 3)
    typed = [h for h in ht if len(h) == 3 and any(x["cls"] == "in" for x in h)]
    dist, trans = dist + dm + df + dt, trans + tm + tf + tt
    def tx(cls, typ, day, amt, price):
        return {"cls": cls, "type": typ, "t": day * 86400 + 43200, "off": 0, "a1": 11, "a2": 0, "amt": amt, "fee": 0, "price": price, "ffee": 0, "vin": -1, "vwf": -1, "vout": -1, "vfee": -1, "par": 0}

    def many_lots(k):
        # one disposal split over k lots: far more gain / loss rows than transactions
        return [tx("in", "buy", 10 + 5 * i, 1, 1 + i % 3) for i in range(k)] + [tx("out", "sell", 400, k, 3)]

    def same_instant(kind):
        # an account credited (by a transfer, or by a purchase) at the very instant it is debited, holding less than the debit before that
        # instant: credits are booked before debits at one instant, so the input is valid (date-only records look like this)
        credit = dict(tx("intra", "move", 20, 1, 3), a1=11, a2=21) if kind == "transfer" else dict(tx("in", "buy", 20, 1, 2), a1=21)
        return [tx("in", "buy", 10, 2, 1), credit, dict(tx("out", "sell", 20, 1, 3), a1=21)]

    n = 2 if tier == "quick" else 8
    res = []
    for i in range(n):
        res.append(("credit_and_debit_at_one_instant", {"B1": same_instant(["transfer", "purchase"][i % 2]), "B2": rnd.choice(full)}))
        res.append(("many_lots", {"B1": many_lots(30 + 30 * (i % 2)), "B2": rnd.choice(full)}))
        res.append(("joint_filing", {"B1": rnd.choice(joint or full), "B2": rnd.choice(joint or full)}))
        out_ty = ["lost", "staking", "fee", "donate", "gift", "sell"][i % 6]      # every out type in turn (each has its own sheet in some tax report)
        typed_t = [h for h in typed if any(x["cls"] == "out" and x["type"] == out_ty for x in h)] or typed
        res.append(("crypto_fees_and_types", {"B1": rnd.choice(feey or full), "B2": rnd.choice(typed_t or full)}))
        late = [h for h in full if min((x["t"] + x["off"]) // 86400 for x in h) >= 400]
        early = [h for h in full if min((x["t"] + x["off"]) // 86400 for x in h) < 250]
        if late and early:
            res.append(("asset_acquired_later", {"B1": rnd.choice(early), "B2": rnd.choice(late)}))
        res.append(("single", {"B1": rnd.choice(mixed or full)}))
        res.append(("multi", {"B1": rnd.choice(full), "B2": rnd.choice(sparse or full), "B3": rnd.choice(mixed or full)}))
        res.append(("sparse_years", {"B1": rnd.choice(sparse or full)}))
        res.append(("fully_sold", {"B1": rnd.choice(sold or full), "B2": rnd.choice(full)}))
        res.append(("income_only", {"B1": rnd.choice(income or full), "B2": rnd.choice(full)}))
    return res, {"slice": "Y", "maxtx": 4, "states": dist, "transitions": trans, "histories_generated": len(hs)}


def dates_for(shape, assets, rnd):
    days = sorted({(x["t"] + x["off"]) // 86400 for h in assets.values() for x in h})
    tax_days = sorted({(x["t"] + x["off"]) // 86400 for h in assets.values() for x in h if x["cls"] != "in" or x["type"] == "interest"}) or days
    firsts = sorted({min((x["t"] + x["off"]) // 86400 for x in h) for h in assets.values()})
    between = {(firsts[i] + firsts[i + 1]) // 2 for i in range(len(firsts) - 1)}       # after one asset's first acquisition, before another's
    cands = sorted(set(days) | {d + 1 for d in tax_days} | {d - 1 for d in days} | {0, 180, 364, 365, 545, 730, 731, 1096, days[0] - 30, days[-1] + 30} | between)
    if shape == "to" and between and rnd.random() < 0.5:
        return None, rnd.choice(sorted(between))
    f = t = None
    if shape in ("from", "fromto"):
        f = rnd.choice(cands)
    if shape in ("to", "fromto"):
        t = rnd.choice([c for c in cands if f is None or c >= f])
    if shape == "inverted":
        f, t = days[-1] + 5, days[0] - 5
    return f, t


def make_run_job(tup, assets, rnd, mode="fork", observe=()):
    f, t = dates_for(tup["shape"], assets, rnd)
    job = {"kind": "cli", "country": tup["country"], "args": {"method": tup["method"] or None, "lang": tup["lang"] or None, "from": f, "to": t, "neg": tup["neg"]},
           "assets": assets, "conc": {"U": "0.5", "P": "10"}, "sched": sched_for(tup["sched"], tup["country"], assets, rnd), "mode": mode, "observe": list(observe), "tuple": tup}
    return job


# ---- fault concretisation (C12, CLI level) --------------------------------------------------------------
def apply_fault(job, fault, rnd):
    from . import odsio  # pylint: disable=import-outside-toplevel

    job = copy.deepcopy(job)
    a0 = sorted(job["assets"])[0]
    lay = odsio.default_layout()
    if fault.endswith("_last_asset"):
        # the same faults in the sheet of the asset processed last (every sheet before it is valid): nothing may be left behind either
        fault0 = fault[:-len("_last_asset")]
        a_last = sorted(job["assets"])[-1]
        if len(job["assets"]) < 2:
            h0 = job["assets"][a0]
            job["assets"] = {"B1": h0, "B2": h0}
            a_last = "B2"
        if fault0.startswith("sheet_"):
            job["sheet_fault"] = {a_last: {"kind": fault0[len("sheet_"):]}}
        else:
            cell = {"field_unknown_exchange": ("exchange", {"k": "s", "s": "Nowhere"}), "field_zero_amount": ("crypto_in", {"k": "n", "n": 0})}[fault0]
            job["sheet_fault"] = {a_last: {"kind": "field", "row": 0, "field": cell[0], "cell": cell[1]}}
    elif fault in ("option_unknown_asset", "option_asset_wrong_case"):
        job["args"]["asset"] = "XRP" if fault == "option_unknown_asset" else a0.lower()
    elif fault.startswith("sheet_"):
        job["sheet_fault"] = {a0: {"kind": fault[len("sheet_"):]}}
    elif fault.startswith("field_"):
        cell = {"field_unknown_exchange": ("exchange", {"k": "s", "s": "Nowhere"}), "field_no_timezone": ("timestamp", None), "field_bad_type": ("transaction_type", {"k": "s", "s": "sell"}),
                "field_zero_amount": ("crypto_in", {"k": "n", "n": 0}), "field_non_numeric": ("spot_price", {"k": "s", "s": "abc"}), "field_asset_mismatch": ("asset", {"k": "s", "s": "B2"}),
                "field_received_gt_sent": None}[fault]
        if fault == "field_no_timezone":
            x = job["assets"][a0][0]
            job["sheet_fault"] = {a0: {"kind": "field", "row": 0, "field": "timestamp", "cell": {"k": "t", "n": x["t"], "off": x["off"], "tz": False}}}
            # row 0 of the sheet is the first IN row in position order: use its own instant
            ins = [y for y in job["assets"][a0] if y["cls"] == "in"]
            job["sheet_fault"][a0]["cell"]["n"] = ins[0]["t"]
        elif fault == "field_received_gt_sent":
            job["assets"][a0] = job["assets"][a0] + [dict(job["assets"][a0][0], cls="intra", type="move", a1=11, a2=21, amt=1, fee=-1, t=job["assets"][a0][-1]["t"] + 86400, ffee=0, vin=-1, vwf=-1)]
        else:
            job["sheet_fault"] = {a0: {"kind": "field", "row": 0, "field": cell[0], "cell": cell[1]}}
            if fault == "field_asset_mismatch":
                job["config_assets"] = sorted(set(job["assets"]) | {"B2"})
    elif fault.startswith("config_"):
        import io  # pylint: disable=import-outside-toplevel

        path = os.path.join(common.scratch(), f"ini_{os.getpid()}_{rnd.randrange(10**9)}.ini")
        odsio.write_ini(path, lay, assets=sorted(job["assets"]), sched=job.get("sched"))
        with open(path, encoding="utf-8") as f:
            text = f.read()
        os.unlink(path)
        del io
        if fault == "config_missing_section":
            text = text.replace("[out_header]", "[out_headerx]").split("[out_headerx]")[0] + "[intra_header]" + text.split("[intra_header]")[1]
        elif fault == "config_bad_column":
            text = text.replace("spot_price = 5", "spot_price = five", 1)
        elif fault == "config_duplicate_column":
            text = text.replace("spot_price = 5", "spot_price = 4", 1)
        elif fault == "config_unknown_section":
            text += "\n[surprise]\nx = 1\n"
        elif fault == "config_no_assets":
            text = "\n".join(l for l in text.splitlines() if not l.startswith("assets")) + "\n"
        elif fault == "config_bom":
            text = "\ufeff" + text
        elif fault == "config_not_ini":
            text = "\n".join(l for l in text.splitlines() if not l.startswith("[")) + "\n"       # no section header at all
        elif fault == "config_json":
            text = json.dumps({"in_header": lay["in"], "out_header": lay["out"], "intra_header": lay["intra"], "assets": sorted(job["assets"]), "exchanges": ["Exa"], "holders": ["Hoa"],
                               "generators": ["open_positions", "rp2_full_report"]})
        job["ini_text"] = text
    elif fault == "input_not_a_spreadsheet":
        job["corrupt_input"] = True
    elif fault == "asset_without_sheet":
        job["config_assets"] = sorted(set(job["assets"]) | {"B9"})
    elif fault == "overdraft":
        h = job["assets"][a0]
        job["assets"][a0] = h + [dict(h[0], cls="out", type="sell", a1=31, a2=0, amt=1, fee=0, t=h[-1]["t"] + 86400, ffee=0, vin=-1, vwf=-1)]
        job["args"]["neg"] = False
        job["args"]["to"] = None  # (an overdraft after the to-date is not required to be noticed)
    elif fault == "overspend":
        h = job["assets"][a0]
        total = sum(x["amt"] for x in h if x["cls"] == "in")
        job["assets"][a0] = h + [dict(h[0], cls="out", type="sell", a1=11, a2=0, amt=total + 1, fee=0, t=h[-1]["t"] + 86400, ffee=0, vin=-1, vwf=-1)]
    elif fault == "bad_date_option":
        job["args"]["extra"] = ["-f", "2020-13-45"]
        job["args"]["from"] = None
    elif fault == "unknown_option":
        job["args"]["extra"] = ["--frobnicate"]
    elif fault == "missing_input_file":
        job["args"]["extra"] = []
        job["missing_input"] = True
    job["fault"] = fault
    return job


def run_trace(res, shipped_cache):
    job, r = res["job"], res["res"]
    tup = job["tuple"]
    c = job["country"]
    if c not in shipped_cache:
        shipped_cache[c] = shipped_languages(c)
    a = job["args"]
    rr = {"country": c, "method": a.get("method") or "", "lang": a.get("lang") or "", "from": a["from"] if a.get("from") is not None else NO_DAY,
          "to": a["to"] if a.get("to") is not None else NO_TO, "neg": bool(a.get("neg")), "sched": job.get("sched") or [], "prefix": a.get("prefix") or "",
          "shipped": shipped_cache[c], "fault": job.get("fault", ""), "pre": sorted(job.get("pre_files", {})),
          "minyear": min_taxable_year({a["asset"]: job["assets"][a["asset"]]} if a.get("asset") in job["assets"] else job["assets"])}
    if tup["shape"] == "inverted" and job.get("fault", "") == "":
        pass
    tail = r.get("output_tail", "")
    o = {"exit": r["exit"], "nerr": len(r["errors"]) + len(r.get("error_text", [])), "files": r["files"],
         "readable": all(v["readable"] for v in r.get("odsinfo", {}).values())}
    return {"kind": "run", "r": rr, "o": o, "meta": {"job": job, "errors": r["errors"][:3], "tail": tail[-400:], "tag": f"{c}:{tup['shape']}:{tup['sched']}:{job.get('fault', '')}"}}


def pairwise_sample(tuples, rnd, n, keys):
    """a sample that covers every pair of values of the given keys at least once, topped up to n tuples"""
    need = set()
    vals = {k: sorted({json.dumps(t[k]) for t in tuples}) for k in keys}
    for i, k1 in enumerate(keys):
        for k2 in keys[i + 1:]:
            for v1 in vals[k1]:
                for v2 in vals[k2]:
                    need.add((k1, v1, k2, v2))
    pool_ = list(tuples)
    rnd.shuffle(pool_)
    chosen = []
    for t in pool_:
        cov = {(k1, json.dumps(t[k1]), k2, json.dumps(t[k2])) for i, k1 in enumerate(keys) for k2 in keys[i + 1:]}
        if cov & need:
            chosen.append(t)
            need -= cov
        if not need:
            break
    for t in pool_:
        if len(chosen) >= n:
            break
        if t not in chosen:
            chosen.append(t)
    return chosen


# ---- the checks ----------------------------------------------------------------------------------------
def finish(prop, tier, timer, traces, verdicts, controls, cverd, states, transitions, mcres, extra_cov, printed, violations, pipeline="run", assumptions=None):
    base_ok = {i for i, v in enumerate(verdicts) if not any(not c.startswith("W.") for c, _ in v)}
    ctl_total = sum(1 for i, _ in controls if i in base_ok)
    ctl_rej = sum(1 for (i, _), v in zip(controls, cverd) if i in base_ok and any(c.startswith(prop + ".") for c, _ in v))
    if base_ok and (ctl_total == 0 or ctl_rej < ctl_total):
        common.die_machinery(f"negative controls: {ctl_rej}/{ctl_total} corrupted observations rejected by a {prop} clause")
    by_clause, other, nontrivial, free = {}, {}, 0, 0
    known = [f for f in common.load_known_findings().get("findings", []) if f.get("property") == prop and f.get("pipeline") == pipeline]
    known_hit = {}
    for i, v in enumerate(verdicts):
        names = [c for c, _ in v]
        free += "W.free_case_not_judged" in names
        nontrivial += any(n.startswith(f"W.{prop}.") for n in names)
        for c in names:
            if c.startswith(prop + "."):
                k = next((f for f in known if f["match_tag"] in traces[i]["meta"].get("tag", "") and c in f["clauses"]), None)
                if k is not None:
                    known_hit[k["id"]] = k
                    continue
                by_clause.setdefault(c, []).append(i)
            elif not c.startswith("W."):
                other[c] = other.get(c, 0) + 1
    for k in known_hit.values():
        printed.insert(0, f"KNOWN-FINDING: property={prop} {k['id']}: {k['what']}")
    for c, lst in sorted(by_clause.items()):
        t = traces[lst[0]]
        path = common.write_replay(prop, c.split(".", 1)[1], {"property": prop, "clause": c, "failing_traces_with_this_clause": len(lst),
                                                               "tags": sorted({traces[j]["meta"].get("tag", "") for j in lst})[:25], "trace": {k: v for k, v in t.items() if k != "meta"},
                                                               "meta": t["meta"], "reproduce": f"./check {prop} --replay <this file>"})
        violations.append({"kind": "trace", "clause": c, "count": len(lst), "replay": path})
        printed.append(f"VIOLATION property={prop} replay={path}")
    samples = [traces[i]["meta"]["sample"] if "sample" in traces[i]["meta"] else {k: v for k, v in traces[i].items() if k != "meta"} for i in range(min(2, len(traces)))]
    for s in samples:
        if "g" in s:
            s["g"] = {"base": {"exit": s["g"]["base"]["exit"]}, "variants": [{"kind": v["kind"], "exit": v["exit"]} for v in s["g"]["variants"]]}
        if "imports" in s:
            s["imports"] = s["imports"][:10]
    coverage = {"states": states, "transitions": transitions, "traces_validated_against_impl": len(traces), "samples": samples, "evaluations": extra_cov.pop("evaluations", len(traces)),
                "distinct_nontrivial": nontrivial,
                "rule": extra_cov.pop("rule"), "exhaustive": tier == "thorough", "model_checking": mcres,
                "negative_controls": {"generated": ctl_total, "rejected_by_property_clause": ctl_rej}, "free_cases_not_judged": free,
                "clauses_of_other_properties_failing": other}
    coverage.update(extra_cov)
    common.write_evidence(prop, tier, "model_checking", coverage, timer.s(), len(violations), assumptions or ASSUMPTIONS)
    for line in printed:
        print(line)
    print(f"{prop} [{tier}]: {len(traces)} traces validated, {nontrivial} non-trivial, TLC states {states}, controls {ctl_rej}/{ctl_total}, violations {len(violations)}, {timer.s():.0f}s")
    return 1 if violations else 0


def run_c16_c12(prop, tier):
    timer = common.Timer()
    rnd = random.Random(common.seed() * 7919 + int(prop[1:]))
    q = tier == "quick"
    printed, violations = [], []
    mc, tuples = model_check_run(with_faults=prop != "C16")
    if "violation" in mc:
        path = common.write_replay(prop, "design", mc)
        violations.append({"kind": "design", "what": mc["violation"], "replay": path})
        printed.append(f"VIOLATION property={prop} replay={path}")
    ins, genstat = inputs(rnd, tier)
    states, transitions = mc["states"] + genstat["states"], mc["transitions"] + genstat["transitions"]
    print(f"[{timer.s():.0f}s] MC_Run: {mc['states']} option tuples", file=sys.stderr)
    jobs = []
    keys = ["country", "method", "lang", "shape", "sched", "neg"]
    if prop == "C16":
        good = [t for t, v in tuples if v == "supported" and t["fault"] == ""]
        chosen = pairwise_sample(good, rnd, 260 if q else 2500, keys)
        for n, t in enumerate(chosen):
            name, assets = ins[(n + n // len(ins)) % len(ins)]      # (shifted by one every round: each input kind meets every country / method in turn)
            job = make_run_job(t, assets, rnd, mode="console" if n % 40 == 7 else ("exec" if n % 40 == 3 else "fork"))
            job["input_kind"] = name
            # the remaining options of the command line: -p (file names carry the prefix), -a with a configured asset (same files), -o relative
            if n % 5 == 1:
                job["args"]["prefix"] = ["my_", "2024-"][n % 2]
            if n % 7 == 2:
                job["args"]["asset"] = sorted(assets)[(n // 7) % len(assets)]
            if n % 6 == 4 and job["mode"] != "console":
                job["relative_out"] = True
            jobs.append(job)
        # every input meets every country at least once (each country has its own generators, templates and sheet sets)
        seen = {(id(j["assets"]), j["country"]) for j in jobs}
        for name, assets in ins:
            for c in ("us", "jp", "es", "ie", "generic"):
                if (id(assets), c) not in seen:
                    plain = [t for t in good if t["country"] == c and t["shape"] == "none" and t["lang"] == ""] or [t for t in good if t["country"] == c]
                    job = make_run_job(rnd.choice(plain), assets, rnd)
                    job["input_kind"] = name
                    jobs.append(job)
    else:
        bad_opts = [t for t, v in tuples if v == "unsupported" and t["fault"] == ""]
        chosen = pairwise_sample(bad_opts, rnd, 60 if q else 600, keys)
        faulty = [t for t, v in tuples if v == "supported" and t["fault"] != "" and t["shape"] in ("none", "to") and t["lang"] == ""]
        by_fault = {}
        for t in faulty:
            by_fault.setdefault(t["fault"], []).append(t)
        for n, t in enumerate(chosen):
            name, assets = ins[n % len(ins)]
            jobs.append(make_run_job(t, assets, rnd))
        for fault, lst in sorted(by_fault.items()):
            for n, t in enumerate(rnd.sample(lst, min(len(lst), 5 if q else 40))):
                name, assets = ins[(n * 5) % len(ins)]
                jobs.append(apply_fault(make_run_job(t, assets, rnd, mode="console" if n == 1 else "fork"), fault, rnd))
    results = pool.run_jobs(jobs, chunksize=2)
    print(f"[{timer.s():.0f}s] {len(results)} end-to-end runs done", file=sys.stderr)
    cache = {}
    traces = [run_trace(r, cache) for r in results]
    controls = []
    for i, t in enumerate(traces):
        if len(controls) >= 30:
            break
        m = copy.deepcopy(t)
        if prop == "C16":
            how = i % 3
            if how == 0:
                m["o"]["exit"] = 1
            elif how == 1 and m["o"]["files"]:
                m["o"]["files"] = m["o"]["files"][1:]
            else:
                m["o"]["files"] = m["o"]["files"] + ["surprise.txt"]
        else:
            how = i % 3
            if how == 0:
                m["o"]["exit"] = 0
            elif how == 1:
                m["o"]["nerr"] = 0
            else:
                m["o"]["files"] = ["fifo_rp2_full_report.ods"]
        controls.append((i, m))
    verdicts, st, tr = tlc.validate_traces(traces + [c for _, c in controls], spec="Trace_Run.tla")
    cverd, verdicts = verdicts[len(traces):], verdicts[:len(traces)]
    kinds = {}
    for t in traces:
        k = t["meta"]["tag"].split(":")[-1] or "valid"
        kinds[k] = kinds.get(k, 0) + 1
    rule = ("one evaluation = one end-to-end run of a country entry point in a fresh process on a generated input; option tuples are enumerated by TLC (MC_Run) and sampled so that every pair of "
            "option values is covered (quick) or taken in full (thorough); non-trivial = the specification classifies the run as " + ("supported and valid" if prop == "C16" else "to be rejected"))
    return finish(prop, tier, timer, traces, verdicts, controls, cverd, states + st, transitions + tr, [mc], {"rule": rule, "generation": genstat, "runs_by_fault": kinds,
                  "option_tuples_enumerated": len(tuples)}, printed, violations)


def import_facts():
    facts = []
    root = os.path.join(common.REPO, "src", "rp2")
    for path in sorted(glob.glob(os.path.join(root, "**", "*.py"), recursive=True)):
        with open(path, encoding="utf-8") as f:
            tree = ast.parse(f.read(), path)
        for node in ast.walk(tree):
            names = []
            if isinstance(node, ast.Import):
                names = [a.name for a in node.names]
            elif isinstance(node, ast.ImportFrom) and node.level == 0 and node.module:
                names = [node.module]
            elif isinstance(node, ast.Call) and getattr(node.func, "id", getattr(node.func, "attr", "")) in ("import_module", "__import__") and node.args and isinstance(node.args[0], ast.Constant):
                names = [str(node.args[0].value)]
            for n in names:
                facts.append({"file": os.path.relpath(path, root), "name": n, "top": n.split(".")[0]})
    return facts


def run_c18(tier):
    prop = "C18"
    timer = common.Timer()
    rnd = random.Random(common.seed() * 7919 + 18)
    q = tier == "quick"
    mc, tuples = model_check_run()
    ins, genstat = inputs(rnd, tier)
    good = [t for t, v in tuples if v == "supported" and t["fault"] == "" and t["lang"] == ""]
    faulty = [t for t, v in tuples if v in ("supported", "free") and t["fault"] != "" and t["lang"] == "" and t["shape"] == "none" and t["sched"] in ("none", "single1970")]
    jobs = []
    for c in ("us", "jp", "es", "ie", "generic"):
        mine = [t for t in good if t["country"] == c]
        for n, t in enumerate(rnd.sample(mine, 4 if q else 30)):
            job = make_run_job(t, ins[n % len(ins)][1], rnd, mode="exec")
            job["audit"] = True
            if n % 4 == 2:
                job["env"] = {"RP2_ENABLE_PROFILER": "1", "LOG_LEVEL": "DEBUG"}      # the switches rp2 reads from the environment
            if n % 4 == 0:
                job["cwd_files"] = {"log": "a file, not a directory\n"}               # the working directory already holds a FILE named log
            if n % 4 == 3:
                job["relative_out"] = True          # -o given relative to the working directory (the default output/ is relative too)
            if n % 2 == 1:
                # the output directory already holds entries named like this run's reports: stale files, and symbolic links to files kept elsewhere
                tag = (job.get("sched") and (job["sched"][0][1] if len(job["sched"]) == 1 else "mixed")) or job["args"].get("method") or "fifo"
                reports = ["open_positions", "rp2_full_report"] + {"us": ["tax_report_us"], "ie": ["tax_report_ie"], "jp": ["tax_report_jp"]}.get(c, [])
                job["pre_links"] = {f"{tag}_{reports[n % len(reports)]}.ods": f"filed_{reports[n % len(reports)]}.ods"}
                job["pre_files"] = {f"{tag}_{reports[(n + 1) % len(reports)]}.ods": "stale, not even a zip\n"}
            jobs.append(job)
        bad = [t for t in faulty if t["country"] == c]
        faults = sorted({t["fault"] for t in bad})
        # quick: one representative of every way of failing (option parsing, missing file, config that is not INI at all, config rejected by
        # rp2's own validation, sheet structure, field value, computation), plus a few more at random
        always = ["unknown_option", "missing_input_file", "config_json", "config_not_ini", "config_bom", "input_not_a_spreadsheet", "config_missing_section", "sheet_missing_end", "field_non_numeric", "overspend"]
        chosen = [f for f in always if f in faults] + rnd.sample([f for f in faults if f not in always], 2)
        for n, fault in enumerate(faults if not q else chosen):
            t = rnd.choice([x for x in bad if x["fault"] == fault])
            job = apply_fault(make_run_job(t, ins[n % len(ins)][1], rnd, mode="exec"), fault, rnd)
            job["audit"] = True
            jobs.append(job)
    results = pool.run_jobs(jobs, chunksize=1)
    print(f"[{timer.s():.0f}s] {len(results)} audited runs done", file=sys.stderr)
    traces = []
    for res in results:
        r = res["res"]
        job = res["job"]
        traces.append({"kind": "effects", "r": {}, "o": {"effects": [{"k": e["k"], "loc": e["loc"]} for e in r.get("effects", [])], "inputs_unchanged": bool(r.get("inputs_unchanged"))},
                       "meta": {"tag": f"{job['country']}:{job.get('fault', '')}", "paths": [e for e in r.get("effects", []) if e["k"] != "read"][:40], "exit": r["exit"]}})
    facts = import_facts()
    traces.append({"kind": "imports", "imports": facts, "meta": {"tag": "imports"}})
    controls = []
    for i, kind in ((0, "socket"), (1, "process"), (2, "other"), (3, "hash")):
        m = copy.deepcopy(traces[i])
        if kind == "hash":
            m["o"]["inputs_unchanged"] = False
        elif kind == "other":
            m["o"]["effects"].append({"k": "write", "loc": "other"})
        else:
            m["o"]["effects"].append({"k": kind, "loc": "none"})
        controls.append((i, m))
    m = copy.deepcopy(traces[-1])
    m["imports"] = m["imports"] + [{"file": "x.py", "name": "urllib.request", "top": "urllib"}]
    controls.append((len(traces) - 1, m))
    verdicts, st, tr = tlc.validate_traces(traces + [c for _, c in controls], spec="Trace_Run.tla", shards=4)
    cverd, verdicts = verdicts[len(traces):], verdicts[:len(traces)]
    rule = ("one evaluation = one end-to-end run in a new interpreter with sys.addaudithook installed before rp2 is imported (open/mkdir/rename/remove/socket.*/subprocess/os.exec*...), "
            "every country on valid input and on each fault class, plus one trace with the import facts of every source file under src/rp2; non-trivial = a run that wrote a report, or the import scan")
    return finish(prop, tier, timer, traces, verdicts, controls, cverd, mc["states"] + genstat["states"] + st, mc["transitions"] + genstat["transitions"] + tr, [mc],
                  {"rule": rule, "import_facts": len(facts), "source_files_scanned": len({f["file"] for f in facts})}, [], [])


def run(prop, tier):
    if prop in ("C16", "C12"):
        return run_c16_c12(prop, tier)
    if prop == "C18":
        return run_c18(tier)
    from . import c17  # pylint: disable=import-outside-toplevel

    return c17.run(tier)


def replay(prop, path):
    with open(path, encoding="utf-8") as f:
        rep = json.load(f)
    job = rep["meta"].get("job")
    if job is None:
        print("this replay file records a trace without a re-runnable job; re-run the check instead")
        return 2
    results = pool.run_jobs([job], chunksize=1, procs=1)
    t = run_trace(results[0], {})
    verdicts, _, _ = tlc.validate_traces([t], spec="Trace_Run.tla", shards=1)
    print(json.dumps({"run": t["r"], "observed": t["o"], "errors": t["meta"]["errors"], "failing_clauses": verdicts[0]}, indent=1))
    if any(c.startswith(prop + ".") for c, _ in verdicts[0]):
        print(f"VIOLATION property={prop} replay={path}")
        return 1
    print(f"replay of {path}: no clause of {prop} fails on this tree")
    return 0
