"""Regenerates MANIFEST.json from the table below (kept in one place so that it stays valid)."""
import json
import os

VERIF = os.path.dirname(os.path.dirname(os.path.abspath(__file__)))

LEDGER_TECH = ("TLA+ spec Rp2Ledger model-checked with TLC (MC_Ledger over Gen_Hist slices; for C01/C02/C09 also Rp2Engine, the matching algorithm as implemented, "
               "with its output compared to rp2's; for C02 and C07 also the inductive invariants of Ind_Pairing / Ind_Balances over unbounded amounts, discharged by Apalache); TLC-generated histories replayed into rp2's compute_tax and into the entry points (method from -m / config schedule, "
               "window, -n, spreadsheet input); every recorded execution validated by TLC against the spec (Trace_Ledger, total verdicts per clause; for C05-C07 also the "
               "written reports against Rp2Docs via Trace_Docs)")
LEDGER_NOTE = ("Trusted: the abstraction alpha from rp2's decimals to lattice integers (exact fractions, 1e-15 relative), the concretiser "
               "(timestamps via Python datetime), TLC, the calendar table in the spec. Exhaustive only inside the slice alphabets/depths "
               "named in the evidence file; larger histories by TLC simulation. Most runs are API level (transactions handed to rp2 as objects); "
               "a smaller batch goes end to end through the entry points, with the ComputedData captured inside the child process by a wrapper the harness installs. "
               "Known finding D8 (to-date cut under mixed UTC offsets) is identified as a class by the specification and printed as KNOWN-FINDING by C10.")

CHECKS = {
    "C01": ("model_checking", "Every fraction of every real run is judged by TLC against the set of best-ranked available lots (clause C01.lot_is_best_ranked_available, "
            "primary rank only, ties free); histories are enumerated by TLC exhaustively over small alphabets (income events, equal timestamps, partial lots, three UTC "
            "offsets around new year) under all four methods and year->method schedules, plus simulated long histories; the design itself (PassedOverOnlyIfEmpty) is "
            "model-checked in MC_Ledger.", "4.1, 6 C01"),
    "C02": ("model_checking", "Conservation clauses on every fraction and event (amount positive, lot not overspent, lot not younger than the event, event covered in full), "
            "run rejected iff the history is not covered at some disposal instant (all prefixes of overspending histories), covered histories never rejected; "
            "dispose-all extensions are part of the alphabet; MC_Ledger checks Conservation and StuckIffUncovered on the design; the pairing loop's arithmetic is also proved for unbounded amounts (Ind_Pairing, inductive invariant, Apalache).", "4.1, 6 C02"),
    "C03": ("model_checking", "TLC checks that the events with fractions are exactly the taxable transactions of the history (type-complete alphabet: all 14 types in every table "
            "that takes them, transfers with and without fee), each once and in full, income with no lot, zero cost, full amount.", "4.1, 6 C03"),
    "C04": ("model_checking", "TLC checks the structure of every figure by integer cross-multiplication on the lattice (proceeds pro-rated over the total outgoing amount, cost "
            "over the lot amount, gain = proceeds - cost, exchange-supplied values in place of computed ones) and Reassembly on the design; the 1e-15 bound against exact "
            "rationals is decided by alpha while the same abstract histories are re-concretised over units from 1e-11 to 2.5e8 and prices from 1e-8 to 1e7.", "4.1, 6 C04, 8"),
    "C05": ("model_checking", "TLC recomputes the long/short flag of every fraction from the two instants and the country's period (us, es 365; jp, ie never; generic 0, 1, 366, 1e9) "
            "over histories with holding periods on both sides of one year, instants one second apart in three UTC offsets.", "4.1, 6 C05"),
    "C06": ("model_checking", "The yearly list reported by each run (full, truncated, -t on/before/after every transaction date) must equal, as a set of lines, the fold of the "
            "fractions of the same behaviour by <<local year of the event, type, long>>.", "4.1, 6 C06"),
    "C07": ("model_checking", "Balances reported by each run must equal the replay of the account ledger in the spec (acquired/sent/received/final per account, every touched account "
            "once), and their sum must equal what the fractions of the same behaviour leave unconsumed in lots (Reconcile) - at every prefix and to-date, with and without -n; the ledger's arithmetic is also proved for unbounded amounts (Ind_Balances, inductive invariant, Apalache).", "4.2, 4.3, 6 C07"),
    "C08": ("model_checking", "For every prefix of histories that may overdraw accounts (several exchanges/holders, transient overdrafts refilled later, same-instant credit+debit), "
            "with and without -n: rejected with an error naming an overdrawn account iff the spec's ledger goes below -1e-10; never rejected otherwise; with -n the run proceeds and reports the negative balance.", "4.2, 6 C08"),
    "C09": ("model_checking", "One abstract behaviour must explain the run on the full history, the runs on every truncated history and the runs limited by -t: fractions (as sets of "
            "tuples), yearly totals and balances of the truncated / to-date runs must be the restriction of the full behaviour; end to end, a two-asset input and the same input cut at an instant T are a pair judged the same way; AppendOnly is checked on the design.", "2, 6 C09"),
    "C10": ("model_checking", "For sampled (quick) / all (thorough) windows from<=to over and around the transaction dates: shown transactions, taxable events and fractions are exactly "
            "those dated in the window with unchanged figures; balances, average price and k/n labels are those at the to-date; yearly lines start with the from-date's year.", "4.1, 6 C10"),
    "C11": ("model_checking", "The sheet automaton and column semantics of spec/Rp2Sheet.tla decide every sheet: MC_Sheet checks the automaton against the documented grammar over all row-token "
            "sequences (<= 7 rows quick, <= 9 thorough) and TLC-generated histories are laid out under the default layout, every transposition of two mapped columns, every optional column unmapped / "
            "moved, random injective layouts with decoy columns, all six table orders, blank rows, permuted rows, 11-decimal units; each sheet is written cell by cell, read by the real parse_ods and "
            "the parsed transactions (fields, defaults, row numbers, artificial fee disposals) are compared by TLC with what the specification reads from the same cells.", "4.5, 6 C11"),
    "C12": ("model_checking", "API level: every malformed token sequence of MC_Sheet and every documented field fault at every row and field position of valid base sheets must be rejected by parse_ods "
            "(the specification, not the harness, classifies a sheet as malformed). CLI level: TLC enumerates option tuples x fault classes (MC_Run); unsupported options, sheet / field / config "
            "faults, missing sheets, overdrafts and overspends must give a non-zero exit, an error message and no report (Rp2Run!RunFails).", "4.5, 4.6, 6 C12"),
    "C16": ("model_checking", "TLC enumerates the option matrix country x method x language x date-filter shape x schedule shape x -n (MC_Run); the supported tuples are concretised (dates on, around and "
            "away from the transactions; schedules placed relative to the first year; single/multi asset, sparse years, fully sold, income-only inputs) and run in fresh processes; exit 0, exactly "
            "the expected report files, each a readable document (Rp2Run!RunFails). Pairwise-covering sample in quick, far larger sample in thorough.", "4.6, 6 C16"),
    "C17": ("model_checking", "Groups of end-to-end runs on one abstract input (repeat, other PYTHONHASHSEEDs, dirty output directory, permuted rows, permuted tables, asset subsets) must be explained by one "
            "set of computed results (normalised ComputedData per asset) and, for byte-identical inputs, identical content.xml digests; an asset's own sheets and the lines the shared sheets hold about it are the same whatever other assets are processed, also under a mid-year from-date (Rp2Run!GroupFails).", "2, 4.6, 6 C17"),
    "C18": ("model_checking", "Audited end-to-end runs (sys.addaudithook installed before rp2 is imported, new interpreter, python -B) of every entry point on valid input and on each fault class: every "
            "effect must be an action of Rp2Run (reads anywhere; writes/renames/removals only under the output directory - given absolute or relative - and ./log, relative paths meaning what they meant at the moment of the effect; no action exists for socket, name resolution or process "
            "events), inputs byte-identical afterwards; plus the import facts of every source file fed to the same specification.", "4.6, 6 C18, 8"),
    "C13": ("model_checking", "End-to-end runs of every country entry point (shipped languages, methods, schedules, date windows, 1-3 assets assembled from TLC-generated histories, permuted rows and "
            "tables, seven unit pairs) with the ComputedData of the same run captured before the generators; rp2_full_report.ods is read back cell by cell and TLC checks (Rp2Docs!FullAssetFails / "
            "FullSharedFails): every in/out/intra transaction of the window once, time-sorted, fields, running sums and sold percentage; every fraction once with amount, proceeds, cost, gain, "
            "long/short, k/n labels, fraction percentages; yearly summaries, balances with per-holder totals, average price; Summary sheet; Legend methods and date filters. Where the property "
            "prescribes the value (yearly lines, k/n labels, balances) the clause derives it from the transactions and from all fractions of the run, not only from the filtered ComputedData.", "0.3, 0.4, 4.7, 6 C13"),
    "C14": ("model_checking", "Same pipeline for rp2_us and rp2_ie on type-complete inputs (all 14 types) with 1-3 assets sharing sheets: TLC checks (Rp2Docs!TaxReportFails) that the rows of "
            "tax_report_us/ie.ods are, per asset, exactly the computed fractions (bag equality of amount, proceeds, cost, gain, long/short and k/n labels), each on the sheet the property assigns to "
            "its transaction type, with dates acquired and sold equal to the local dates, proceeds and cost basis following the transactions (pro-rating formulas of Rp2Ledger), and that sheets without rows are absent. The per-sheet row counters shared by the assets are model-checked as a design (MC_TaxSheets, "
            "a counter restarted per asset refuted as sensitivity control) and its scenarios replayed into rp2.", "0.3, 4.7, 6 C14"),
    "C15": ("model_checking", "Same pipeline for runs without from-date (multi-holder, multi-exchange inputs, every country): TLC checks (Rp2Docs!OpenPositionsFails) the holder rows and (exchange, holder) "
            "rows against the positive computed balances, unrealized cost against the cost of the unconsumed lot parts derived from the computed fractions, realized + unrealized = total acquired cost, "
            "per-unit cost x total balance = unrealized cost, weights as exact shares of the total (rational arithmetic on the lattice), lots consumed = amounts disposed, balances = unsold lot parts.", "0.3, 4.7, 6 C15"),
    "C19": ("model_checking", "Every hyperlink of rp2_full_report.ods is resolved to what it leads to (the transaction found in the target row) and TLC checks (Rp2Docs!LinkAssetFails / LinkSummaryFails) "
            "that event and lot cells lead to the row of that very transaction of that asset, carry no link when the window hides it, and that every Summary line leads to the first gain/loss row "
            "of its year; inputs: 2-3 assets sharing row numbers, rows not time-sorted, windows hiding lots / events, mixed UTC offsets around new year. The row-map design of the generator is "
            "model-checked in MC_RowMap.", "4.7, 6 C19"),
    "C20": ("model_checking", "Same pipeline for rp2_jp (-g en / kl / default ja, -f or -t): TLC checks (Rp2Docs!JpReportFails) one sheet per asset and year with transactions, each transaction of the year "
            "listed once with the columns the property names, the opening balance cells referring to the closing cells of the most recent earlier year sheet of that asset (0 if none), one summary "
            "sheet per year with one line per asset pointing at that asset-year sheet; inputs with sparse and unordered years. The chaining design is model-checked in MC_JpGen.", "4.7, 6 C20"),
}

DOCS_TECH = ("TLA+ spec Rp2Docs (abstract documents over the ledger of Rp2Ledger); TLC-generated histories assembled into multi-asset inputs and run end to end in fresh processes; computed data "
             "captured in-process, written ODS documents read back and projected; TLC validates every run against the spec (Trace_Docs); generator designs model-checked (MC_RowMap, MC_JpGen, MC_TaxSheets)")
DOCS_NOTE = ("Trusted: the ODS reader and the projection of cells onto the lattice (harness/docsread.py, harness/docs.py; titles and type names translated with the gettext catalogs of the tree under "
             "test), the capture wrapper around rp2_main._find_and_run_report_generators, Python datetime for month/day and date texts, TLC. Computed data is pinned by observation: its own "
             "correctness is the business of C01-C10.")

RUN_TECH = ("TLA+ spec Rp2Run / Rp2Sheet; TLC enumerates option tuples (MC_Run) and sheet structures (MC_Sheet, checked against the documented grammar); each is concretised and run on the real "
            "rp2 (parse_ods in-process, entry points in fresh processes); TLC validates what every run left behind (Trace_Run / Trace_Sheet)")
RUN_NOTE = ("Trusted: the concretiser (ezodf writer, .ini writer), the observation of exit status / files / audit events, the list of shipped template languages read from the tree under test, "
            "TLC. Product constants (accepted methods, generators, default languages) are stated in the specification from the documentation.")
ENGINE_OF = {"C11": "sheet", "C12": "sheet+run", "C16": "run", "C17": "run", "C18": "run", "C13": "docs", "C14": "docs", "C15": "docs", "C19": "docs", "C20": "docs"}


def main():
    with open(os.path.join(VERIF, "properties.jsonl"), encoding="utf-8") as f:
        props = [json.loads(l) for l in f]
    checks = []
    for pid, (cat, text, ref) in sorted(CHECKS.items()):
        checks.append({
            "property_id": pid,
            "quick_cmd": f"./check {pid} --tier quick",
            "thorough_cmd": f"./check {pid} --tier thorough",
            "evidence_file": f"/verif/evidence/{pid}.json",
            "replay_cmd_template": f"./check {pid} --replay {{path}}",
            "engine": ENGINE_OF.get(pid, "ledger"),
            "level_claimed": {"category": cat, "text": text, "design_ref": ref},
            "level_note": DOCS_NOTE if ENGINE_OF.get(pid) == "docs" else RUN_NOTE if pid in ENGINE_OF else LEDGER_NOTE,
            "technique": DOCS_TECH if ENGINE_OF.get(pid) == "docs" else RUN_TECH if pid in ENGINE_OF else LEDGER_TECH,
        })
    na = [{"property_id": p["id"], "reason": "check not built yet (work in progress; see DESIGN.md section 10)"} for p in props if p["id"] not in CHECKS]
    m = {
        "version": 1,
        "setup_cmd": "./setup.sh",
        "hooks": {"guard": "RP2_VERIF", "enable": "RP2_VERIF=1 (no hook is committed to eprbell/rp2: the checks observe it through its API, its files, an interpreter audit hook and, for the computed data of CLI runs, a wrapper installed by the harness inside the child process)",
                  "baseline_off_cmd": "cd /repo && env -u RP2_VERIF /venv/bin/python -m pytest -ra -q -p no:cacheprovider --timeout=900 --continue-on-collection-errors",
                  "source_commits": [], "add_only": True},
        "engines": [{"name": "sheet", "path": "/verif/harness/sheet_main.py", "serves_properties": ["C11", "C12"],
                     "kind_free_text": "TLC model checking of spec/MC_Sheet.tla + generated spreadsheets read by the real parse_ods + TLC trace validation (spec/Trace_Sheet.tla)"},
                    {"name": "run", "path": "/verif/harness/run_main.py", "serves_properties": ["C12", "C16", "C17", "C18"],
                     "kind_free_text": "TLC enumeration of option tuples (spec/MC_Run.tla) + end-to-end runs of the entry points in fresh processes + TLC trace validation (spec/Trace_Run.tla)"},
                    {"name": "docs", "path": "/verif/harness/docs_main.py", "serves_properties": ["C13", "C14", "C15", "C19", "C20"],
                     "kind_free_text": "end-to-end runs on TLC-generated multi-asset inputs + documents read back + TLC trace validation (spec/Trace_Docs.tla over spec/Rp2Docs.tla) + design models MC_RowMap / MC_JpGen / MC_TaxSheets"},
                    {"name": "ledger", "path": "/verif/harness/ledger_main.py", "serves_properties": sorted(p for p in CHECKS if p not in ENGINE_OF),
                     "kind_free_text": "TLC model checking of spec/MC_Ledger.tla + TLC-generated histories (spec/Gen_Hist.tla) run on the real rp2 + TLC trace validation (spec/Trace_Ledger.tla)"}],
        "checks": checks,
        "notes": "Model-based verification with an explicit TLA+ specification (spec/*.tla); see DESIGN.md. Exit codes: 0 held, 1 VIOLATION, 2 machinery failure.",
        "not_applicable": na,
    }
    with open(os.path.join(VERIF, "MANIFEST.json"), "w", encoding="utf-8") as f:
        json.dump(m, f, indent=1)


if __name__ == "__main__":
    main()
