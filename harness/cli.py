"""One invocation of a country entry point (rp2_us, rp2_jp, ...) in a fresh process (DESIGN.md P6).

fork mode : child forked from a pool worker that has only imported rp2; fast (no interpreter start)
exec mode : a new interpreter (needed for PYTHONHASHSEED and for the audit hook of C18)
console   : the real console script /venv/bin/rp2_<country>, observed from outside only

The child writes the input files of the job (config .ini, spreadsheet .ods), sets sys.argv, calls the
entry point and records: exit status, error messages, files in the output directory, optionally the
ComputedData of every asset (captured just before the report generators run) and the documents."""
import hashlib
import json
import os
import shutil
import subprocess
import sys
import tempfile
import traceback
import zipfile

from . import common

ENTRY = {"us": ("rp2.plugin.country.us", "US"), "jp": ("rp2.plugin.country.jp", "JP"), "es": ("rp2.plugin.country.es", "ES"),
         "ie": ("rp2.plugin.country.ie", "IE"), "generic": ("rp2.plugin.country.generic", "Generic")}


def day_iso(d):
    from .rp2api import BASE_DATE  # pylint: disable=import-outside-toplevel
    from datetime import timedelta  # pylint: disable=import-outside-toplevel

    return (BASE_DATE + timedelta(days=d)).isoformat()


def build_argv(job, ini, ods, outdir):
    a = job.get("args", {})
    argv = [f"rp2_{job['country']}"]
    if a.get("method"):
        argv += ["-m", a["method"]]
    if a.get("lang"):
        argv += ["-g", a["lang"]]
    if a.get("from") is not None:
        argv += ["-f", day_iso(a["from"])]
    if a.get("to") is not None:
        argv += ["-t", day_iso(a["to"])]
    if a.get("neg"):
        argv += ["-n"]
    if a.get("asset"):
        argv += ["-a", a["asset"]]
    if a.get("prefix"):
        argv += ["-p", a["prefix"]]
    argv += list(a.get("extra", []))
    argv += ["-o", os.path.relpath(outdir, os.getcwd()) if job.get("relative_out") else outdir, ini, ods + ".missing.ods" if job.get("missing_input") else ods]
    return argv


def prepare(job, d):
    """write the input files of a job into directory d; returns (ini, ods, outdir, rowmaps)"""
    import random  # pylint: disable=import-outside-toplevel

    from . import odsio  # pylint: disable=import-outside-toplevel

    conc = job["conc"]
    sh = conc.get("sheet", {})
    layout = sh.get("layout") or odsio.default_layout()
    rnd = random.Random(sh.get("seed", 0))
    sheets, rowmaps = {}, {}
    for asset, h in job["assets"].items():
        n = len(h)
        perm = sh.get("row_perm", {}).get(asset) if isinstance(sh.get("row_perm"), dict) else None
        blanks = sh.get("blanks_by_asset", {}).get(asset) or sh.get("blanks", (0, 1, 0, 0))
        rows = odsio.sheet_rows(h, layout, rnd, order=tuple(sh.get("order", ("in", "out", "intra"))), blanks=tuple(blanks), asset=asset,
                                row_perm=perm, decoys=sh.get("decoys", False))
        fault = job.get("sheet_fault", {}).get(asset)
        if fault:
            rows = apply_sheet_fault(rows, fault, layout)
        sheets[asset] = rows
        rowmaps[asset] = {i + 1: r["pos"] for i, r in enumerate(rows) if r["k"] == "data" and "pos" in r}
        del n
    ini, ods, outdir = os.path.join(d, "config.ini"), os.path.join(d, "input.ods"), os.path.join(d, "out")
    cfg_assets = job.get("config_assets") or sorted(job["assets"])
    odsio.write_ini(ini, layout, assets=cfg_assets, sched=job.get("sched"), generators=job.get("generators"), extra_text=job.get("ini_extra", ""))
    if job.get("ini_text") is not None:
        with open(ini, "w", encoding="utf-8") as f:
            f.write(job["ini_text"])
    odsio.write_ods(ods, sheets, layout, conc["U"], conc["P"])
    if job.get("corrupt_input"):
        with open(ods, "wb") as f:
            f.write(b"this is not a spreadsheet\n" * 20)
    os.makedirs(outdir, exist_ok=True)
    for name, content in job.get("pre_files", {}).items():
        with open(os.path.join(outdir, name), "w", encoding="utf-8") as f:
            f.write(content)
    # entries of the output directory that are symbolic links to files kept elsewhere (e.g. an archive of last year's reports)
    for name, target in job.get("pre_links", {}).items():
        tpath = os.path.join(d, "archive", target)
        os.makedirs(os.path.dirname(tpath), exist_ok=True)
        with open(tpath, "w", encoding="utf-8") as f:
            f.write("filed last year\n")
        os.symlink(tpath, os.path.join(outdir, name))
    return ini, ods, outdir, rowmaps


def apply_sheet_fault(rows, fault, layout):
    """structural or field fault on an abstract sheet (C12, CLI level); fault = {kind, ...}"""
    import copy  # pylint: disable=import-outside-toplevel

    from . import odsio  # pylint: disable=import-outside-toplevel

    rows = copy.deepcopy(rows)
    kind = fault["kind"]
    datas = [i for i, r in enumerate(rows) if r["k"] == "data"]
    if kind == "missing_end":
        idx = [i for i, r in enumerate(rows) if r["k"] == "end"][fault.get("n", 0)]
        del rows[idx]
    elif kind == "nested":
        rows.insert(datas[0], {"k": "begin", "tbl": "out", "cells": []})
    elif kind == "repeated":
        first_end = [i for i, r in enumerate(rows) if r["k"] == "end"][0]
        rows[first_end + 1:first_end + 1] = copy.deepcopy(rows[:first_end + 1])
    elif kind == "data_outside":
        rows.append(copy.deepcopy(rows[datas[0]]))
    elif kind == "empty_in":
        begin = [i for i, r in enumerate(rows) if r["k"] == "begin" and r["tbl"] == "in"][0]
        end = [i for i, r in enumerate(rows) if r["k"] == "end" and i > begin][0]
        rows = rows[:begin + 2] + rows[end:]
    elif kind == "field":
        i = datas[fault.get("row", 0) % len(datas)]
        tbl = [r["tbl"] for r in rows[:i] if r["k"] == "begin"][-1]
        col = layout[tbl][fault["field"]]
        c = dict(odsio.E)
        c.update(fault["cell"])
        rows[i]["cells"][col] = c
    return rows


_AUDIT = {"on": False, "events": [], "reads": 0}
_PROC = ("subprocess.Popen", "os.system", "os.exec", "os.posix_spawn", "os.spawn", "os.fork", "os.forkpty", "pty.spawn", "os.startfile")
_NET = ("socket.", "http.client.", "urllib.Request", "ftplib.", "smtplib.", "poplib.", "imaplib.", "nntplib.", "telnetlib.", "ssl.")
_WRITE_EV = {"os.mkdir": "mkdir", "os.rename": "rename", "os.remove": "remove", "os.rmdir": "remove", "os.truncate": "write", "os.chmod": "write",
             "os.chown": "write", "os.link": "write", "os.symlink": "write", "shutil.rmtree": "remove", "shutil.move": "rename", "shutil.copyfile": "write",
             "shutil.copytree": "write", "os.utime": "write", "tempfile.mkstemp": "write", "tempfile.mkdtemp": "mkdir"}


def _here(path):
    """a relative path means what it meant when the effect happened: relative to the working directory of that moment"""
    if isinstance(path, bytes):
        path = path.decode("utf-8", "replace")
    if isinstance(path, str) or hasattr(path, "__fspath__"):
        path = os.fspath(path)
        if isinstance(path, str) and not os.path.isabs(path):
            return os.path.join(os.getcwd(), path)
    return path


def _audit_hook(event, args):
    if not _AUDIT["on"]:
        return
    try:
        if event == "open":
            path, mode, flags = (list(args) + [None, None, None])[:3]
            writing = (isinstance(mode, str) and any(ch in mode for ch in "wax+")) or (
                isinstance(flags, int) and flags & (os.O_WRONLY | os.O_RDWR | os.O_APPEND | os.O_CREAT | os.O_TRUNC))
            if writing:
                _AUDIT["events"].append(("write", _here(path)))
            else:
                _AUDIT["reads"] += 1
        elif event in _WRITE_EV:
            for a in args[:2]:
                if isinstance(a, (str, bytes)) or hasattr(a, "__fspath__"):
                    _AUDIT["events"].append((_WRITE_EV[event], _here(a)))
        elif event in _PROC or event.startswith("os.exec") or event.startswith("os.spawn"):
            _AUDIT["events"].append(("process", f"{event} {str(args)[:120]}"))
        elif event.startswith(_NET):
            _AUDIT["events"].append(("socket", f"{event} {str(args)[:120]}"))
    except Exception:  # pylint: disable=broad-except
        pass


def _classify(path, d, follow=True):
    """where an effect lands: a write follows a symbolic link to its target; removing / renaming acts on the directory entry itself"""
    if isinstance(path, int):
        return "other"
    if isinstance(path, bytes):
        path = path.decode("utf-8", "replace")
    p = os.path.join(d, os.fspath(path))
    p = os.path.realpath(p) if follow else os.path.join(os.path.realpath(os.path.dirname(p)), os.path.basename(p))
    d = os.path.realpath(d)
    if p.startswith(os.path.join(d, "out") + os.sep) or p == os.path.join(d, "out"):
        return "out"
    if p.startswith(os.path.join(d, "log") + os.sep) or p == os.path.join(d, "log"):
        return "log"
    if p in (os.path.join(d, "config.ini"), os.path.join(d, "input.ods")):
        return "input"
    return "other"


def _sha(path):
    with open(path, "rb") as f:
        return hashlib.sha256(f.read()).hexdigest()


class _Capture:
    def __init__(self):
        self.data = None

    def install(self):
        import rp2.rp2_main as m  # pylint: disable=import-outside-toplevel

        orig = m._find_and_run_report_generators
        cap = self

        def wrapper(*args, **kw):
            cap.data = {"computed": kw.get("asset_to_computed_data"), "methods": kw.get("years_2_accounting_method_names")}
            return orig(*args, **kw)

        m._find_and_run_report_generators = wrapper


def child_main(job, d, result_path):
    """runs in the fresh process; never returns"""
    res = {"exit": None, "errors": [], "files": [], "computed": None}
    try:
        ini, ods, outdir, rowmaps = prepare(job, d)
        if job.get("mode", "fork") != "fork":
            os.chdir(d)  # (a forked child stays in the worker's directory, where rp2.logger created ./log at import)
            for name, content in job.get("cwd_files", {}).items():
                with open(os.path.join(d, name), "w", encoding="utf-8") as f:
                    f.write(content)
        import logging  # pylint: disable=import-outside-toplevel

        errors = res["errors"]

        class H(logging.Handler):
            def emit(self, record):
                if record.levelno >= logging.ERROR:
                    msg = record.getMessage()
                    if record.exc_info and record.exc_info[1] is not None:
                        msg += f" | {type(record.exc_info[1]).__name__}: {str(record.exc_info[1])[:400]}"
                    errors.append(msg[:600])

        logging.getLogger("rp2").addHandler(H())
        out = open(os.path.join(d, "stdout.txt"), "w", encoding="utf-8")  # pylint: disable=consider-using-with
        os.dup2(out.fileno(), 1)
        os.dup2(out.fileno(), 2)
        sys.stdout = sys.stderr = out
        for k, v in job.get("env", {}).items():
            os.environ[k] = str(v)
        if job["country"] == "generic":
            os.environ.setdefault("CURRENCY_CODE", "usd")
            os.environ.setdefault("LONG_TERM_CAPITAL_GAINS", str(job.get("ltcg", 365)))
        sys.argv = build_argv(job, ini, ods, outdir)
        outside = sorted(os.path.join(d, "archive", t) for t in job.get("pre_links", {}).values())
        before = (_sha(ini), _sha(ods)) + tuple(_sha(p) for p in outside) if os.path.exists(ini) and os.path.exists(ods) else None
        if job.get("audit"):
            sys.addaudithook(_audit_hook)
            _AUDIT["on"] = True
        res["argv"] = list(sys.argv)
        from importlib import import_module  # pylint: disable=import-outside-toplevel

        cap = _Capture()
        if "computed" in job.get("observe", []) or "docs" in job.get("observe", []):
            cap.install()
        try:
            mod = import_module(ENTRY[job["country"]][0])
            mod.rp2_entry()
            res["exit"] = 0
        except SystemExit as exc:
            res["exit"] = exc.code if isinstance(exc.code, int) else (0 if exc.code is None else 1)
        except BaseException as exc:  # pylint: disable=broad-except
            res["exit"] = 70
            res["errors"].append(f"UNCAUGHT {type(exc).__name__}: {str(exc)[:400]}")
        _AUDIT["on"] = False
        out.flush()
        if job.get("audit"):
            res["effects"] = [{"k": "read", "loc": "any", "path": f"{_AUDIT['reads']} files opened for reading"}] if _AUDIT["reads"] else []
            for k, p in _AUDIT["events"]:
                res["effects"].append({"k": k, "loc": _classify(p, d, follow=k in ("write", "mkdir")) if k not in ("socket", "process") else "none", "path": str(p)[-120:]})
            res["inputs_unchanged"] = before is not None and before == (_sha(ini), _sha(ods)) + tuple(_sha(p) if os.path.exists(p) else "" for p in outside)
        res["files"] = sorted(os.listdir(outdir))
        res["odsinfo"] = {f: ods_info(os.path.join(outdir, f), sorted(job.get("assets") or [])) for f in res["files"] if f.endswith(".ods")}
        if cap.data and cap.data["computed"] is not None and "computed" in job.get("observe", []):
            res["computed"] = observe_computed(job, cap.data["computed"], rowmaps)
            res["methods"] = {str(k): v for k, v in (cap.data["methods"] or {}).items()}
        if "docs" in job.get("observe", []) and res["exit"] == 0:
            from . import docsread  # pylint: disable=import-outside-toplevel

            res["docs"] = docsread.read_reports(outdir, res["files"])
        with open(os.path.join(d, "stdout.txt"), encoding="utf-8", errors="replace") as f:
            text = f.read()
        res["output_tail"] = text[-1500:]
        res["error_text"] = [l.strip()[:200] for l in text.splitlines() if "rror" in l or "not found" in l or "does not end with" in l or "not a directory" in l][:5]
    except BaseException:  # pylint: disable=broad-except
        res["harness_error"] = traceback.format_exc()[-3000:]
    try:
        with open(result_path, "w", encoding="utf-8") as f:
            json.dump(res, f)
    finally:
        os._exit(0)


def ods_info(path, assets=()):
    """is the file a readable ODS document; digest of its content, of every sheet, and - on the sheets shared by the assets - of the lines
    that name each asset (formulas, values and texts of their cells: what the shared sheets say about one asset)"""
    try:
        with zipfile.ZipFile(path) as z:
            content = z.read("content.xml")
        import xml.etree.ElementTree as ET  # pylint: disable=import-outside-toplevel

        root = ET.fromstring(content)
        # digest of every sheet on its own (what an asset's sheets show must not depend on which other assets are in the run)
        sheets = {}
        for tbl in root.iter("{urn:oasis:names:tc:opendocument:xmlns:table:1.0}table"):
            name = tbl.get("{urn:oasis:names:tc:opendocument:xmlns:table:1.0}name")
            body = b"".join(ET.tostring(row) for row in tbl.iter("{urn:oasis:names:tc:opendocument:xmlns:table:1.0}table-row"))
            sheets[name] = hashlib.sha256(body).hexdigest()[:16]
        lines = {a: [] for a in assets}
        T, O = "{urn:oasis:names:tc:opendocument:xmlns:table:1.0}", "{urn:oasis:names:tc:opendocument:xmlns:office:1.0}"
        for tbl in root.iter(T + "table"):
            name = tbl.get(T + "name")
            if any(name.startswith(a + " ") or name.endswith(" " + a) or f"_{a} " in name or f"_{a}_" in name for a in assets):
                continue        # (an asset's own sheet: covered by its digest above)
            for row in tbl.iter(T + "table-row"):
                cells = [(c.get(T + "formula") or "", c.get(O + "value") or "", "".join(c.itertext())) for c in row if c.tag == T + "table-cell"]
                for a in assets:
                    if any(x[2] == a for x in cells):
                        lines[a].append(repr((name, [x for x in cells if x != ("", "", "")])))
        asset_lines = {a: hashlib.sha256("\n".join(v).encode()).hexdigest()[:16] for a, v in lines.items()}
        return {"readable": True, "digest": hashlib.sha256(content).hexdigest()[:16], "size": len(content), "sheets": sheets, "asset_lines": asset_lines}
    except Exception as exc:  # pylint: disable=broad-except
        return {"readable": False, "digest": "", "error": str(exc)[:200]}


def observe_computed(job, computed, rowmaps):
    from .rp2api import Alpha, lcm_q, observe  # pylint: disable=import-outside-toplevel

    res = {}
    for asset, cd in computed.items():
        h = job["assets"][asset]
        Q = job["conc"].get("Q") or lcm_q(h)
        al = Alpha(job["conc"]["U"], job["conc"]["P"], Q)
        fee_parents = [p for p, x in enumerate(h) if x["cls"] == "in" and x["fee"] > 0]
        idmap = {}
        free = list(fee_parents)
        from .odsio import _tsobs  # pylint: disable=import-outside-toplevel
        from .rp2api import acct_names  # pylint: disable=import-outside-toplevel

        for s in (cd.in_transaction_set, cd.out_transaction_set, cd.intra_transaction_set):
            # the filtered sets hide rows outside the window: walk the unfiltered lists
            for t in s._entry_list:  # pylint: disable=protected-access
                # a transaction is identified by the unique id the concretiser wrote (t<n> = position n of the history); an out-transaction that
                # carries the unique id of an acquisition is the artificial fee disposal of that acquisition (whatever internal id rp2 gave it)
                uid0 = str(getattr(t, "unique_id", "") or "")
                pos0 = int(uid0[1:]) - 1 if uid0.startswith("t") and uid0[1:].isdigit() and 0 < int(uid0[1:]) <= len(h) else None
                kind = type(t).__name__
                cls0 = {"InTransaction": "in", "OutTransaction": "out", "IntraTransaction": "intra"}.get(kind)
                if pos0 is not None and h[pos0]["cls"] == cls0:
                    idmap[t.internal_id] = pos0 + 1
                elif pos0 is not None and cls0 == "out" and pos0 in fee_parents:
                    idmap[t.internal_id] = len(h) + 1 + fee_parents.index(pos0)
                elif t.row >= 0 and t.row in rowmaps[asset]:
                    idmap[t.internal_id] = rowmaps[asset][t.row] + 1
                else:
                    tt, _o, _k = _tsobs(t.timestamp)
                    cand = [p for p in free if h[p]["t"] == tt and acct_names(h[p]["a1"]) == (t.exchange, t.holder) and h[p]["fee"] == al.amt(t.crypto_fee)]
                    # the artificial disposal carries the unique id of its acquisition (the concretiser wrote t<n> there)
                    uid = str(getattr(t, "unique_id", "") or "")
                    if uid.startswith("t") and uid[1:].isdigit() and int(uid[1:]) - 1 in cand:
                        cand = [int(uid[1:]) - 1]
                    if cand:
                        free.remove(cand[0])
                        idmap[t.internal_id] = len(h) + 1 + fee_parents.index(cand[0])
        o = observe(cd, idmap, al)
        # every fraction of the run, whatever the date filters (the filtered set is a view over the same list)
        try:
            o["fr_all"] = [[idmap[g.taxable_event.internal_id], idmap[g.acquired_lot.internal_id] if g.acquired_lot is not None else 0, al.amt(g.crypto_amount),
                            al.money(g.taxable_event_fiat_amount_with_fee_fraction), al.money(g.fiat_cost_basis), al.money(g.fiat_gain), bool(g.is_long_term_capital_gains())]
                           for g in cd.gain_loss_set._entry_list]  # pylint: disable=protected-access
        except (KeyError, AttributeError):
            o["fr_all"] = None
        o["ex"] = al.exact
        o["Q"] = Q
        res[asset] = o
    return res


def run_child_fork(job, d, result_path):
    pid = os.fork()
    if pid == 0:
        child_main(job, d, result_path)
    _, status = os.waitpid(pid, 0)
    return status


def do_cli_job(job, state):
    d = tempfile.mkdtemp(prefix="cli_", dir=state["wdir"])
    result_path = os.path.join(d, "result.json")
    mode = job.get("mode", "fork")
    try:
        if mode == "fork":
            run_child_fork(job, d, result_path)
        else:
            jpath = os.path.join(d, "job.json")
            with open(jpath, "w", encoding="utf-8") as f:
                json.dump(job, f)
            env = dict(os.environ)
            env["PYTHONPATH"] = os.path.join(common.REPO, "src")
            env["PYTHONDONTWRITEBYTECODE"] = "1"
            if job.get("hashseed") is not None:
                env["PYTHONHASHSEED"] = str(job["hashseed"])
            if mode == "exec":
                code = (f"import sys; sys.path.insert(0, {common.VERIF!r}); from harness import clishim; clishim.main({jpath!r}, {d!r}, {result_path!r})")
                subprocess.run([common.PY, "-B", "-c", code], env=env, cwd=d, capture_output=True, timeout=600, check=False)
            else:  # console: the real console script, observed from outside
                ini, ods, outdir, _ = prepare(job, d)
                if job["country"] == "generic":
                    env.setdefault("CURRENCY_CODE", "usd")
                    env.setdefault("LONG_TERM_CAPITAL_GAINS", str(job.get("ltcg", 365)))
                p = subprocess.run([f"/venv/bin/rp2_{job['country']}"] + build_argv(job, ini, ods, outdir)[1:], env=env, cwd=d, capture_output=True, text=True, timeout=600, check=False)
                files = sorted(os.listdir(outdir))
                res = {"exit": p.returncode, "errors": [l for l in (p.stderr + p.stdout).splitlines() if l.startswith("ERROR") or "rror" in l][:5], "files": files,
                       "odsinfo": {f: ods_info(os.path.join(outdir, f)) for f in files if f.endswith(".ods")}, "computed": None, "output_tail": (p.stdout + p.stderr)[-1500:],
                       "error_text": [l.strip()[:200] for l in (p.stdout + p.stderr).splitlines() if "rror" in l or "not found" in l or "does not end with" in l][:5]}
                with open(result_path, "w", encoding="utf-8") as f:
                    json.dump(res, f)
        if not os.path.exists(result_path):
            return {"error": f"cli job produced no result ({mode})", "job": job}
        with open(result_path, encoding="utf-8") as f:
            res = json.load(f)
        if "harness_error" in res:
            return {"error": res["harness_error"], "job": job}
        return {"job": job, "res": res}
    finally:
        if not job.get("keep"):
            shutil.rmtree(d, ignore_errors=True)
