"""Shared plumbing of the verification harness: paths, scratch space, seeds, evidence, findings.

Nothing in this package contains accounting logic: the TLA+ specification under /verif/spec is the
oracle, TLC evaluates it; Python only generates/concretises inputs, runs the real rp2, projects what
it observes onto the integer lattice of the specification (alpha) and parses TLC's verdicts.
"""
import atexit
import json
import os
import shutil
import sys
import tempfile
import time

VERIF = os.path.dirname(os.path.dirname(os.path.abspath(__file__)))
REPO = os.environ.get("RP2_REPO", "/repo")
SPEC = os.path.join(VERIF, "spec")
EVIDENCE = os.environ.get("VERIF_EVIDENCE_DIR") or os.path.join(VERIF, "evidence")
REPLAY = os.path.join(EVIDENCE, "replay")
PY = "/venv/bin/python"
TLA_CP = "/opt/veriftools/tla/tla2tools.jar:/opt/veriftools/tla/CommunityModules-deps.jar"
NCPU = min(16, os.cpu_count() or 1)

MIN_DAY = -1000000
MAX_DAY = 1000000
INT_MAX = 2**31 - 1

_scratch = None


def scratch():
    """Private scratch directory of this check invocation, removed at exit (DESIGN.md P6)."""
    global _scratch
    if _scratch is None:
        _scratch = tempfile.mkdtemp(prefix="rp2verif.")
        atexit.register(shutil.rmtree, _scratch, ignore_errors=True)
    return _scratch


def seed():
    try:
        return int(os.environ.get("VERIF_SEED", "0"))
    except ValueError:
        return 0


class MachineryError(Exception):
    """The framework itself failed (tool crash, vacuity, negative control accepted): exit 2."""


def die_machinery(msg):
    sys.stdout.flush()
    print(f"MACHINERY-ERROR: {msg}", file=sys.stderr)
    sys.exit(2)


def load_known_findings():
    path = os.path.join(VERIF, "known_findings.json")
    if not os.path.exists(path):
        return {"findings": [], "fixed": []}
    with open(path, encoding="utf-8") as f:
        return json.load(f)


def clear_replays(prop):
    """replay files of earlier runs of this property's check (a run writes the ones that apply to it)"""
    import glob

    for f in glob.glob(os.path.join(REPLAY, f"{prop}_*.json")):
        try:
            os.unlink(f)
        except OSError:
            pass


def write_replay(prop, name, payload):
    os.makedirs(REPLAY, exist_ok=True)
    path = os.path.join(REPLAY, f"{prop}_{name}.json")
    with open(path, "w", encoding="utf-8") as f:
        json.dump(payload, f, indent=1, sort_keys=True, default=str)
    return path


def write_evidence(prop, tier, level, coverage, wall_s, violations, assumptions):
    os.makedirs(EVIDENCE, exist_ok=True)
    ev = {
        "property_id": prop,
        "tier": tier,
        "seed": seed(),
        "level": level,
        "coverage": coverage,
        "assumptions": assumptions,
        "wall_s": round(wall_s, 2),
        "violations": violations,
    }
    path = os.path.join(EVIDENCE, f"{prop}.json")
    tmp = path + ".tmp"
    with open(tmp, "w", encoding="utf-8") as f:
        json.dump(ev, f, indent=1, default=str)
    os.replace(tmp, path)
    return path


class Timer:
    def __init__(self):
        self.t0 = time.time()

    def s(self):
        return time.time() - self.t0
