"""Entry point of the ledger checks C01..C10 (see ledger.py)."""
import json
import os
import random
import sys

from . import common, gen, ledger, pool, tlc

LEVEL_ASSUMPTIONS = [
    "TLC decides on an integer lattice (amounts k*U, prices j*P, money in U*P/Q); the map from rp2's decimals to the lattice is harness code "
    "using exact fractions and fails a figure that is not within 1e-15 relative of a lattice point",
    "calendar table YearStart and timestamp strings come from Python's datetime in the harness",
    "exhaustive only within the stated slice alphabets and depths; beyond them TLC simulation",
    "same-instant transfer chains (one transfer feeding another at the same instant) are not generated: the property does not resolve their order",
]


def known_for(prop):
    kf = common.load_known_findings()
    return [f for f in kf.get("findings", []) if f.get("property") == prop and f.get("pipeline", "ledger") == "ledger"]


def run_known_findings(prop):
    """replay the listed witnesses; returns (lines to print, set of trace keys that are listed)"""
    out, keys = [], set()
    fs = known_for(prop)
    if not fs:
        return out, keys
    traces = pool.run_jobs([f["job"] for f in fs], chunksize=1, procs=min(4, len(fs)))
    verdicts, _, _ = tlc.validate_traces(traces, shards=1)
    for f, t, v in zip(fs, traces, verdicts):
        keys.add(ledger.trace_key(t))
        mine = sorted({c for c, _ in v if c.startswith(prop + ".") or c.startswith(f"K.{prop}.{f['id']}.")})
        if mine:
            out.append(f"KNOWN-FINDING: property={prop} {f['id']}: {f['what']} [clauses: {', '.join(mine)}]")
        else:
            out.append(f"NOTE: listed finding {f['id']} of {prop} no longer reproduces on this tree")
    return out, keys


def replay(prop, path):
    with open(path, encoding="utf-8") as f:
        rep = json.load(f)
    if rep["job"].get("kind") == "cli":
        from . import docs_main

        pair = [rep["job"]] + ([rep["job"]["truncated_job"]] if rep["job"].get("truncated_job") else [])
        res = pool.run_jobs(pair, chunksize=1, procs=1)
        traces = [t for t in docs_main.ledger_traces(res[0]) if t["meta"]["runs"][0]["asset"] == rep["job"].get("asset_judged")]
        docs_main.attach_truncated(res, traces)
        if not traces:
            print("the end-to-end run did not complete:", res[0]["res"].get("errors"))
            print(f"VIOLATION property={prop} replay={path}")
            return 1
    else:
        traces = pool.run_jobs([rep["job"]], chunksize=1, procs=1)
    verdicts, _, _ = tlc.validate_traces(traces, shards=1)
    mine = [(c, l) for c, l in verdicts[0] if c.startswith(prop + ".")]
    print(json.dumps({"history": rep["job"].get("h") or rep["job"].get("assets"), "config": rep["job"].get("c") or rep["job"].get("args"), "failing_clauses": verdicts[0], "messages": traces[0]["meta"]["msgs"]}, indent=1))
    if mine:
        print(f"VIOLATION property={prop} replay={path}")
        return 1
    print(f"replay of {path}: no clause of {prop} fails on this tree")
    return 0


def run(prop, tier):
    timer = common.Timer()
    rnd = random.Random(common.seed() * 7919 + int(prop[1:]))
    states = transitions = 0
    violations = []
    printed = []

    # (a) the design: TLC on MC_Ledger
    mc_plan, jobs, genstats = ledger.make_jobs(prop, tier, rnd)
    print(f"[{timer.s():.0f}s] generated {len(jobs)} jobs", file=sys.stderr)
    mc_results = []
    for slice_, maxtx, mode, schedset in mc_plan:
        r = gen.model_check_ledger(slice_, maxtx, mode, schedset)
        mc_results.append(r)
        states += r["states"]
        transitions += r["transitions"]
        if "violation" in r:
            path = common.write_replay(prop, "design", r)
            violations.append({"kind": "design", "what": r["violation"], "replay": path})
            printed.append(f"VIOLATION property={prop} replay={path}")
    for g in genstats:
        states += g["states"]
        transitions += g["transitions"]
    # (a') the matching algorithm as implemented (Rp2Engine): model-checked; its finished runs are replayed into the real code
    engine = None
    if prop in ("C01", "C02", "C09"):
        engine, eruns = gen.model_check_engine(3 if tier == "quick" else 4, "pairs")
        states += engine["states"]
        transitions += engine["transitions"]
        if "violation" in engine:
            print(f"NOTE: the implementation-shaped model Rp2Engine violates one of its invariants ({engine['violation']}); its runs are replayed into rp2 below", file=sys.stderr)
        limit = 2500 if tier == "quick" else 40000
        if len(eruns) > limit:
            eruns = rnd.sample(eruns, limit)
        jobs += [gen.engine_job(r) for r in eruns]
        engine["runs_replayed"] = len(eruns)
    pairing = gen.prove_pairing() if prop == "C02" else gen.prove_balances() if prop == "C07" else None   # the pairing loop over unbounded amounts (Apalache, inductive invariant)

    print(f"[{timer.s():.0f}s] model checking done", file=sys.stderr)
    # (b) spec -> code: run the real rp2 on every generated history
    traces = pool.run_jobs(jobs)
    nruns = sum(len(j["runs"]) for j in jobs)
    overflow = [t for t in traces if t["meta"]["overflow"]]
    traces = [t for t in traces if not t["meta"]["overflow"]]

    # (b') the same properties at the level of the entry points: method / schedule from -m or the config file, window and -n from the command
    # line, transactions through the spreadsheet; what each run computed is one more trace for the same specification
    from . import docs_main

    cli_jobs, cli_stats = docs_main.cli_ledger_jobs(prop, tier, rnd)
    cli_results = pool.run_jobs(cli_jobs, chunksize=2)
    cli_traces = [t for r in cli_results for t in docs_main.ledger_traces(r)]
    docs_main.attach_truncated(cli_results, cli_traces)
    incomplete = [r for r in cli_results if r["res"]["exit"] != 0]
    traces += cli_traces
    nruns += len(cli_results)
    for g in cli_stats:
        states += g["states"]
        transitions += g["transitions"]
    print(f"[{timer.s():.0f}s] {nruns} real runs done ({len(cli_results)} end to end, {len(cli_traces)} asset traces)", file=sys.stderr)
    # model drift (P2): the deterministic output of Rp2Engine must be what the real compute_tax returned on the same history
    if engine is not None:
        drift = []
        for t in traces:
            exp = t["meta"].get("engine_expected")
            if not exp:
                continue
            got = [[ln["ev"], ln["lot"], ln["amt"]] for ln in t["lines"] if ln["a"] == "Take"]
            status = next((ln["status"] for ln in t["lines"] if ln["a"] == "Obs"), "none")
            if (exp["pc"] == "done") != (status == "ok") or (exp["pc"] == "done" and got != exp["out"]):
                drift.append({"history": t["h"], "sched": t["c"]["sched"], "model": exp, "rp2": got, "rp2_status": status})
        engine["model_drift"] = len(drift)
        engine["model_drift_samples"] = drift[:3]
        if drift:
            print(f"NOTE: model drift: Rp2Engine and rp2 disagree on {len(drift)} of {engine['runs_replayed']} replayed runs (the model describes the code; see evidence)", file=sys.stderr)

    # negative controls
    controls = []
    order = list(range(len(traces)))
    rnd.shuffle(order)
    for i in order:
        if len(controls) >= int(os.environ.get("VERIF_CONTROLS", 40 if tier == "quick" else 200)):
            break
        if not any(ln["a"] == "Obs" and ln["status"] != "ok" for ln in traces[i]["lines"]) or prop == "C08":
            mt = ledger.mutate(traces[i], prop, rnd)
            if mt is not None:
                controls.append((i, mt))

    # (c) code -> spec: TLC judges every recorded execution
    verdicts, st, tr = tlc.validate_traces(traces + [c for _, c in controls])
    states += st
    transitions += tr
    print(f"[{timer.s():.0f}s] traces validated", file=sys.stderr)
    cverd = verdicts[len(traces):]
    verdicts = verdicts[:len(traces)]

    known_hits = {}
    viol, nontrivial, other, structural = ledger.judge(prop, traces, verdicts, known_hits)
    unjudged = {i for i, _ in structural}
    known_lines, known_keys = run_known_findings(prop)
    printed_known = list(known_lines)
    for f in known_for(prop):
        if f["id"] in known_hits and not any(f["id"] in l for l in printed_known):
            printed_known.append(f"KNOWN-FINDING: property={prop} {f['id']}: {f['what']}")
    printed_known = [l + (f" [{known_hits[f['id']]} generated runs fall in this class]" if f["id"] in l and f["id"] in known_hits else "") for l in printed_known for f in [next((g for g in known_for(prop) if g["id"] in l), {"id": "\0"})]]

    # controls: a control derived from an accepted trace must be rejected by a clause of this property
    base_ok = {i for i in range(len(traces)) if not any(not c.startswith("W.") for c, _ in verdicts[i])}
    ctl_total = ctl_rejected = 0
    for (i, _), v in zip(controls, cverd):
        if i not in base_ok:
            continue
        ctl_total += 1
        if any(c.startswith(prop + ".") or c.startswith(f"K.{prop}.") for c, _ in v):
            ctl_rejected += 1
    need = ctl_total
    if ctl_total == 0 or ctl_rejected < need:
        if ctl_total == 0 and not base_ok:
            pass  # nothing accepted at all: reported as violations below
        else:
            common.die_machinery(f"negative controls: {ctl_rejected}/{ctl_total} corrupted traces rejected by a {prop} clause")

    # report violations: one replay per failing clause (smallest history first), listed findings excepted
    by_clause = {}
    for i, mine in viol:
        if i in unjudged or ledger.trace_key(traces[i]) in known_keys:
            continue
        for c, l in mine:
            by_clause.setdefault(c, []).append((len(traces[i]["h"]), i, l))
    nviol = len({i for v in by_clause.values() for _, i, _ in v})
    for n, (c, lst) in enumerate(sorted(by_clause.items())):
        lst.sort()
        _, i, l = lst[0]
        t = traces[i]
        job = {"h": t["h"], "c": {"country": t["c"]["country"], "ltcg": t["c"]["ltcg"], "sched": t["c"]["sched"], "neg": t["meta"]["neg"]},
               "conc": t["meta"]["conc"], "runs": t["meta"]["runs"], "tag": t["meta"]["tag"]}
        if t["meta"].get("cli_job"):
            job = dict(t["meta"]["cli_job"], asset_judged=t["meta"]["runs"][0]["asset"])      # an end-to-end run: replayed through the entry point
        path = common.write_replay(prop, f"{c.split('.', 1)[1]}", {
            "property": prop, "clause": c, "line": l, "failing_traces_with_this_clause": len(lst), "job": job,
            "trace_lines": t["lines"], "messages": t["meta"]["msgs"], "reproduce": f"./check {prop} --replay <this file>"})
        violations.append({"kind": "trace", "clause": c, "count": len(lst), "replay": path})
        printed.append(f"VIOLATION property={prop} replay={path}")

    samples = []
    for i in order[:3]:
        t = traces[i]
        samples.append({"history": t["h"], "config": t["c"], "units": t["meta"]["conc"], "lines": t["lines"][:6], "verdict": verdicts[i]})
    coverage = {
        "states": states, "transitions": transitions, "traces_validated_against_impl": len(traces),
        "samples": samples,
        "evaluations": nruns, "distinct_nontrivial": nontrivial,
        "rule": f"one evaluation = one real run of rp2 (compute_tax) on a TLC-generated history under one configuration/view; a trace is non-trivial for {prop} "
                f"when TLC recorded a witness clause W.{prop}.* for it (the antecedent of the property occurred); traces are distinct (history, configuration) pairs",
        "exhaustive": all(g["exhaustive"] for g in genstats if not g["simulated_behaviours"]),
        "model_checking": mc_results + ([engine] if engine else []) + ([pairing] if pairing else []), "generation": genstats,
        "negative_controls": {"generated": ctl_total, "rejected_by_property_clause": ctl_rejected},
        "end_to_end_runs": {"runs": len(cli_results), "asset_traces": len(cli_traces), "runs_not_completed": len(incomplete), "generation": cli_stats},
        "histories_skipped_for_lattice_overflow": len(overflow),
        "traces_not_judged": len(unjudged),
        "clauses_of_other_properties_failing": other,
        "known_findings_printed": printed_known,
        "violating_traces": nviol,
    }
    common.write_evidence(prop, tier, "model_checking", coverage, timer.s(), len(violations), LEVEL_ASSUMPTIONS)
    for line in printed_known:
        print(line)
    for line in printed:
        print(line)
    print(f"{prop} [{tier}]: {len(traces)} traces / {nruns} real runs validated, {nontrivial} non-trivial, TLC states {states}, "
          f"controls {ctl_rejected}/{ctl_total}, violations {len(violations)}, {timer.s():.0f}s")
    if structural:
        print(f"note: {len(unjudged)} traces not judged ({sorted({c for _, c in structural})})", file=sys.stderr)
    return 1 if violations else 0
