"""Checks on the reports rp2 writes: C13 (full report content), C19 (its hyperlinks), C14 (tax_report_us / _ie), C15 (open
positions), C20 (tax_report_jp).  TLC generates the transaction histories (spec/Gen_Hist.tla); the harness assembles multi-asset
inputs from them, runs the country entry points end to end in fresh processes, captures what the run computed just before the
generators ran, reads the written documents back and projects them (harness/docs.py); TLC judges every run against spec/Rp2Docs.tla
(spec/Trace_Docs.tla).  The design of the two stateful generators is model-checked separately (spec/MC_RowMap.tla, spec/MC_JpGen.tla)."""
import copy
import json
import os
import random
import re
import sys
from datetime import timedelta

from . import common, docs, gen, pool, tlc
from .rp2api import BASE, BASE_DATE
from .run_main import finish, shipped_languages

ASSUMPTIONS = [
    "reading ODS (zip + content.xml) and locating tables by their translated titles is harness code (harness/docsread.py, harness/docs.py); titles and type names are "
    "translated with the gettext catalogs of the tree under test",
    "figures in documents are floats: the projection onto the lattice accepts 4e-15 relative (double precision); percentages and per-unit prices are read as small exact rationals",
    "the ledger state a document must render is pinned by observation: the ComputedData of the very same run, captured in the child process just before the report generators run "
    "(a wrapper around rp2_main._find_and_run_report_generators installed by the harness; no hook is committed to rp2)",
    "month/day of a transaction and the texts of date filters come from Python's datetime in the harness",
    "transactions are identified in documents by the unique_id the concretiser assigned (t<n>), never by row numbers",
]

# spreadsheet cells are read with 11 decimals: U, P and U*P all have at most 11 decimals, so that every lattice value survives the input format
# (and a double carries 11 exact decimals only below about 3e4: every cell value - amounts, prices, supplied fiat values - stays below that)
UNITS = [("0.5", "10"), ("0.3333333", "0.7"), ("0.00000001", "4321.098"), ("123.456", "0.00012345"), ("1", "1"), ("0.123", "3.7"), ("2.5", "250.5"), ("0.0007", "0.0003")]
METHODS = ["fifo", "lifo", "hifo", "lofo"]


def day_of(x):
    return (x["t"] + x["off"]) // 86400


def month_day(x):
    d = (BASE + timedelta(seconds=x["t"] + x["off"])).replace(tzinfo=None)
    return [d.month, d.day]


def expand(h):
    """positions of the expanded history (artificial fee disposals appended): (transaction, parent position or None)"""
    res = [(x, None) for x in h]
    for p, x in enumerate(h):
        if x["cls"] == "in" and x["fee"] > 0:
            res.append((x, p))
    return res


# ---- inputs ---------------------------------------------------------------------------------------------------------------
def histories_for(slices, rnd):
    pools, stats = {}, []
    for slice_, maxtx in slices:
        hs, dist, trans, _ = gen.histories(slice_, maxtx)
        # (a sheet without acquisitions is not a valid input: rp2 requires a non-empty IN table, see C12)
        full = [h for h in hs if len(h) >= max(2, maxtx - 1) and any(x["cls"] == "in" for x in h) and any(x["cls"] != "in" or x["type"] not in ("buy", "gift", "donate") for x in h)]
        pools[slice_] = full or hs
        stats.append({"slice": slice_, "maxtx": maxtx, "states": dist, "transitions": trans, "histories_generated": len(hs), "histories_usable": len(full)})
    return pools, stats


def pick_window(assets, rnd, shape):
    days = sorted({day_of(x) for h in assets.values() for x in h})
    cands = sorted(set(days) | {d + 1 for d in days} | {d - 1 for d in days} | {0, 180, 364, 365, 545, 730, 731, 1096})
    f = t = None
    if shape in ("from", "fromto"):
        f = rnd.choice(cands)
    if shape in ("to", "fromto"):
        # (mostly a to-date on the very day of some transaction - preferably one whose UTC date differs from its own date - else any candidate)
        own = [d for d in days if f is None or d >= f]
        split = [day_of(x) for h in assets.values() for x in h if x["t"] // 86400 != day_of(x) and (f is None or day_of(x) >= f)]
        r = rnd.random()
        t = rnd.choice(split) if split and r < 0.5 else rnd.choice(own) if own and r < 0.8 else rnd.choice([c for c in cands if f is None or c >= f])
    return f, t


def make_job(assets, country, rnd, shape="none", lang=None, method=None, sched=None, units=None, perm=True):
    U, P = units or rnd.choice(UNITS)
    f, t = pick_window(assets, rnd, shape)
    Q = docs.lcm_all(list(assets.values()))
    sheet = {"seed": rnd.randrange(10**6)}
    if perm:
        sheet["row_perm"] = {a: rnd.sample(range(len(h)), len(h)) for a, h in assets.items()}
        sheet["order"] = rnd.choice([["in", "out", "intra"], ["out", "intra", "in"], ["intra", "in", "out"]])
        sheet["blanks"] = [rnd.randrange(3) for _ in range(4)]
    return {"kind": "cli", "country": country, "args": {"method": method, "lang": lang, "from": f, "to": t, "neg": False}, "assets": assets,
            "conc": {"U": U, "P": P, "Q": Q, "sheet": sheet}, "sched": sched, "mode": "fork", "observe": ["computed", "docs"]}


def min_year(assets):
    d = min(day_of(x) for h in assets.values() for x in h)
    return (BASE_DATE + timedelta(days=d)).year


def plan_jobs(prop, tier, rnd):
    q = tier == "quick"
    if prop in ("C13", "C19"):
        slices = [("Y", 4), ("B", 3), ("F", 3), ("M", 3), ("C", 3), ("T", 3), ("Z", 3)]
    elif prop == "C05":
        slices = [("Y", 4), ("C", 3)]
    elif prop == "C06":
        slices = [("Y", 4), ("T", 3), ("Z", 3)]
    elif prop == "C07":
        slices = [("M", 3), ("B", 3), ("F", 3)]
    elif prop == "C14":
        slices = [("T", 3), ("Y", 4), ("B", 3), ("F", 3), ("Z", 3), ("C", 3), ("V", 3)]
    elif prop == "C15":
        slices = [("M", 3), ("Y", 4), ("B", 3), ("F", 3), ("V", 3), ("Z", 3), ("T", 3)]
    else:
        slices = [("Y", 4), ("T", 3), ("B", 3), ("F", 3), ("C", 3), ("Z", 3), ("V", 3)]
    pools, stats = histories_for(slices, rnd)
    if prop == "C20" and "V" in pools:
        # (which value the fee column of the JP sheets shows when an exchange-supplied fiat fee differs from crypto fee x price is not stated by
        # the property: such rows are left out)
        pools["V"] = [h for h in pools["V"] if not any(x["cls"] == "out" and x["fee"] > 0 and x["vfee"] >= 0 for x in h)] or pools["V"]
    names = [s for s, _ in slices]
    jobs = []
    n = {"C13": 110, "C19": 130, "C14": 110, "C15": 120, "C20": 100, "C05": 60, "C06": 60, "C07": 60}[prop] * (1 if q else 12)
    langs = {c: shipped_languages(c) for c in ("us", "jp", "es", "ie", "generic")}
    for i in range(n):
        k = 1 + (i % 3) if prop != "C19" else 2 + (i % 2)
        assets = {}
        for j in range(k):
            s = names[(i + j) % len(names)] if rnd.random() < 0.7 else rnd.choice(names)
            assets[f"B{j + 1}"] = rnd.choice(pools[s])
        if prop == "C05":
            # acquisitions both more and less than a year before some disposal: long and short fractions in one report
            def both_terms(h):
                ins = [x["t"] for x in h if x["cls"] == "in"]
                outs = [x["t"] for x in h if x["cls"] != "in"]
                return any(o - a >= 366 * 86400 for a in ins for o in outs) and any(0 <= o - a < 365 * 86400 for a in ins for o in outs)
            mixed = [h for h in pools.get("Y", []) if both_terms(h)]
            if mixed:
                assets["B1"] = rnd.choice(mixed)
        if prop == "C20" and "T" in pools and i % 5 == 1:
            # a donation followed in the same year by a fee-bearing transfer or another disposal: every row keeps its own sold-yen cell
            def donate_then(h):
                o = sorted(h, key=lambda y: y["t"])
                ks = [k for k, x in enumerate(o) if x["cls"] == "out" and x["type"] == "donate"]
                return any((x["cls"] == "intra" and x["fee"] > 0) or (x["cls"] == "out" and x["type"] != "donate") for k in ks for x in o[k + 1:])
            want = [h for h in pools["T"] if donate_then(h)]
            if want:
                assets["B1"] = rnd.choice(want)
        if prop == "C20" and "V" in pools and i % 5 == 2:
            # a sale whose value the exchange supplied (different from amount x price): the sheet shows the value rp2 computed with
            sup = [h for h in pools["V"] if any(x["cls"] == "out" and x["vout"] >= 0 for x in h)]
            if sup:
                assets["B1"] = rnd.choice(sup)
        if prop == "C15" and i % 3 == 0 and "M" in pools:
            # holdings on every account of the alphabet: two holders, one of them on two exchanges (the other's account sorts in between)
            def spread(h):
                return {x["a1"] for x in h if x["cls"] == "in"} | {x["a2"] for x in h if x["cls"] == "intra"} >= {11, 21, 12}
            wide = [h for h in pools["M"] if spread(h)]
            if wide:
                assets["B1"] = rnd.choice(wide)
        if prop == "C14" and "T" in pools:
            # every transaction type in every table that takes it, in turn (covering all 14 types does not depend on the seed)
            out_ty = ["sell", "gift", "donate", "fee", "lost", "staking"][i % 6]
            in_ty = ["airdrop", "hardfork", "income", "interest", "mining", "staking", "wages", "buy", "gift", "donate"][i % 10]
            want = [h for h in pools["T"] if any(x["cls"] == "out" and x["type"] == out_ty for x in h) and any(x["cls"] == "in" and x["type"] == in_ty for x in h)]
            if not want:
                want = [h for h in pools["T"] if any(x["cls"] == "out" and x["type"] == out_ty for x in h)]
            if want:
                assets["B1"] = rnd.choice(want)
        if prop == "C13" and i % 4 == 1:
            # a lot consumed, then another lot, then the first one again (possible under LIFO / HIFO / LOFO): several acquisitions and disposals
            def revisits(h):
                o = sorted(h, key=lambda y: y["t"])
                return ([x["cls"] == "in" for x in o] == [True, False, True, False] and len({x["t"] for x in o}) == 4
                        and o[1]["amt"] + o[1]["fee"] < o[0]["amt"] and o[3]["amt"] + o[3]["fee"] > o[2]["amt"])
            rich = [h for s_ in names for h in pools[s_] if revisits(h)]
            if rich:
                assets["B1"] = rnd.choice(rich)
        if prop == "C19" and i % 4 == 1 and "F" in pools:
            # several acquisitions with a crypto fee in one run: artificial fee disposals next to real rows
            feey = [h for h in pools["F"] if sum(x["cls"] == "in" and x["fee"] > 0 for x in h) >= 2]
            if feey:
                assets = {a: rnd.choice(feey) for a in assets}
        if prop == "C19" and i % 3 == 0:
            # the same history shape under every asset: rows of different assets share row numbers
            h0 = assets["B1"]
            assets = {a: (h0 if rnd.random() < 0.6 else h) for a, h in assets.items()}
        if prop == "C13" and i % 4 == 1:
            country = ["us", "generic"][(i // 4) % 2]
        elif prop == "C14":
            country = ["us", "ie"][i % 2]
        elif prop == "C20":
            country = "jp"
        else:
            country = ["us", "generic", "es", "ie", "jp", "us"][i % 6]
        lang = None
        if country == "jp":
            lang = rnd.choice([l for l in langs["jp"] if l in ("en", "kl", "ja")] or ["en"])
        elif rnd.random() < 0.3 and langs[country]:
            lang = rnd.choice(langs[country])
        si = i + i // 6       # (shifted by one every round of the countries: each country meets each window shape)
        if prop in ("C15", "C07"):
            shape = ["none", "to", "none", "to"][si % 4]
        elif prop == "C19":
            shape = ["from", "fromto", "none", "from", "to"][si % 5]
        elif prop == "C20":
            shape = ["none", "none", "from", "to"][si % 4]
        else:
            shape = ["none", "from", "to", "fromto"][si % 4]
        if prop == "C13" and i % 4 == 1:
            shape = "none" if (i // 4) % 3 else "to"      # (a from-date would hide the revisited lot's row)
        if country == "jp" and shape == "fromto":
            shape = "from"
        method, sched = None, None
        if country in ("us", "generic"):
            r = rnd.random()
            if prop == "C13" and i % 4 == 1:
                method = rnd.choice(["lifo", "lifo", "hifo", "lofo"])
            elif r < 0.6:
                method = rnd.choice(METHODS)
            elif r < 0.85:
                y = min_year(assets)
                sched = [[1970, rnd.choice(METHODS)], [y + 1, rnd.choice(METHODS)]] + ([[y + 3, rnd.choice(METHODS)]] if rnd.random() < 0.4 else [])
        job = make_job(assets, country, rnd, shape=shape, lang=lang, method=method, sched=sched)
        job["tag"] = f"{country}:{lang or ''}:{shape}:{'sched' if sched else (method or 'default')}:{'+'.join(sorted(assets))}"
        jobs.append(job)
    return jobs, stats


# ---- traces ---------------------------------------------------------------------------------------------------------------
def _tokens(s):
    return [t for t in re.split(r"[^a-z0-9]+", str(s).lower()) if t]


def build_trace(res):
    job, r = res["job"], res["res"]
    a = job["args"]
    country = job["country"]
    lang = a.get("lang") or {"us": "en", "jp": "ja", "es": "es", "ie": "en_IE", "generic": "en"}[country]
    lex = docs.Lex(lang)
    names = sorted(job["assets"])
    U, P, Q = job["conc"]["U"], job["conc"]["P"], job["conc"]["Q"]
    mk = lambda: docs.DocAlpha(U, P, Q)  # noqa: E731
    sched = job.get("sched") or [[1970, a.get("method") or "fifo"]]
    fromtxt, totxt = docs.legend_dates(a.get("from"), a.get("to"))
    W = {"from": a["from"] if a.get("from") is not None else common.MIN_DAY, "to": a["to"] if a.get("to") is not None else common.MAX_DAY, "country": country,
         "sched": sched, "Q": Q, "fromtxt": fromtxt, "totxt": totxt}
    meta = {"job": job, "tag": job.get("tag", ""), "exit": r["exit"], "errors": r.get("errors", [])[:3], "files": r.get("files", [])}
    tr = {"W": W, "as": [], "sm": [], "lg": {"method": [], "from": "", "to": ""}, "has": {"full": False, "tax": False, "open": False, "jp": False},
          "prob": {"full": [], "tax": [], "open": [], "jp": []}, "ex": {"full": True, "tax": True, "open": True, "jp": True},
          "tx": {"sheets": [], "rows": []}, "op": {"asset_rows": [], "exchange_rows": [], "inputs": []}, "jp": {"asset_sheets": [], "summary_sheets": []}, "md": [], "meta": meta}
    if r["exit"] != 0 or not r.get("computed") or not r.get("docs"):
        meta["skip"] = f"run did not complete (exit {r['exit']}): {r.get('errors', [])[:2]} {r.get('output_tail', '')[-300:]}"
        return tr
    computed = r["computed"]
    if any(n not in computed for n in names):
        meta["skip"] = "computed data lacks an asset"
        return tr
    overflow = False
    rawdocs = r["docs"]

    def find(suffix):
        hits = [f for f in rawdocs if f.endswith(suffix)]
        return rawdocs[hits[0]] if hits and "error" not in rawdocs[hits[0]] else None

    full = find("_rp2_full_report.ods")
    pf = docs.Problems()
    fulldoc = None
    if full is not None:
        fulldoc = docs.proj_full(full, names, job["assets"], lex, mk, pf)
        tr["has"]["full"] = True
        tr["prob"]["full"] = pf.items
        tr["ex"]["full"] = fulldoc["ex"]
        meta["inexact"] = fulldoc.get("bad", [])
        overflow = overflow or fulldoc.get("overflow", False)
        tr["sm"] = fulldoc["summary"]
        tr["lg"] = {"method": _tokens(fulldoc["legend"]["method"]), "from": fulldoc["legend"]["from"], "to": fulldoc["legend"]["to"]}
    for n in names:
        cd = computed[n]
        h = job["assets"][n]
        overflow = overflow or not cd.get("ex", True) and False
        entry = {"name": n, "h": [dict(x, par=x.get("par", 0)) for x in h],
                 "cd": dict({k: cd[k] for k in ("fr", "lab", "yr", "bal", "ins", "outs", "intras", "ppu")}, fr_all=cd.get("fr_all") or [], has_all=cd.get("fr_all") is not None),
                 "doc": fulldoc["assets"][n] if fulldoc else {"present": False, "ins": [], "outs": [], "intras": [], "summary": [], "balances": [], "totals": [], "avg": [0, 1], "detail": []}}
        tr["as"].append(entry)
        tr["md"].append([month_day(x) for x, _p in expand(h)])
    taxdoc = find(f"_tax_report_{country}.ods") if country in ("us", "ie") else None
    if taxdoc is not None:
        pt = docs.Problems()
        t = docs.proj_tax(taxdoc, country, job["assets"], mk, pt)
        tr["has"]["tax"] = True
        tr["prob"]["tax"] = pt.items
        tr["ex"]["tax"] = t["ex"]
        overflow = overflow or t.get("overflow", False)
        tr["tx"] = {"sheets": t["sheets"], "rows": t["rows"]}
    opdoc = find("_open_positions.ods")
    if opdoc is not None and a.get("from") is None:
        po = docs.Problems()
        o = docs.proj_open(opdoc, lex, mk, po)
        tr["has"]["open"] = True
        tr["prob"]["open"] = po.items
        tr["ex"]["open"] = o["ex"]
        overflow = overflow or o.get("overflow", False)
        tr["op"] = {k: o[k] for k in ("asset_rows", "exchange_rows", "inputs")}
    jpdoc = find("_tax_report_jp.ods") if country == "jp" else None
    if jpdoc is not None:
        pj = docs.Problems()
        j = docs.proj_jp(jpdoc, names, lex, mk, pj)
        tr["has"]["jp"] = True
        tr["prob"]["jp"] = pj.items
        tr["ex"]["jp"] = j["ex"]
        overflow = overflow or j.get("overflow", False)
        tr["jp"] = {"asset_sheets": j["asset_sheets"], "summary_sheets": j["summary_sheets"]}
    meta["overflow"] = bool(overflow)
    meta["sample"] = {"W": W, "assets": {e["name"]: {"history": e["h"], "computed_fractions": e["cd"]["fr"], "detail_rows": len(e["doc"]["detail"])} for e in tr["as"]},
                      "documents": sorted(rawdocs), "tag": meta["tag"]}
    return tr


# ---- the ledger properties at the level of the entry points ------------------------------------------------------------------
def cli_ledger_jobs(prop, tier, rnd):
    """end-to-end runs for the ledger checks C01..C10: the method comes from -m or from the [accounting_methods] section of the config
    file, the window from -f / -t, -n from the command line, the transactions from a spreadsheet - everything the API-level pipeline
    hands to compute_tax directly"""
    q = tier == "quick"
    slices = {"C05": [("Y", 4), ("P", 2)], "C07": [("M", 3), ("B", 3)], "C08": [("M", 3), ("B", 3)], "C03": [("T", 3), ("B", 3)], "C04": [("V", 3), ("B", 3)]}.get(prop, [("Y", 4), ("A", 3), ("B", 3)])
    pools, stats = histories_for(slices, rnd)
    names = [s for s, _ in slices]
    if prop in ("C01", "C02", "C09"):
        # histories in which the method has a real choice: two lots of different age and price, acquired before a disposal
        def choice(h):
            o = sorted(h, key=lambda y: y["t"])
            ins = [x for x in o if x["cls"] == "in"]
            return len(ins) >= 2 and ins[0]["price"] != ins[1]["price"] and ins[0]["t"] != ins[1]["t"] and any(x["cls"] == "out" and x["t"] >= ins[1]["t"] for x in o)
        for s_ in names:
            good = [h for h in pools[s_] if choice(h)]
            if good:
                pools[s_] = good
    jobs = []
    L = len(names)
    for i in range(48 if q else 400):
        # (slice, number of assets, country, method / schedule and window vary on different strides of i, so that each meets the others)
        assets = {f"B{j + 1}": rnd.choice(pools[names[(i + j) % L]]) for j in range(1 + ((i // L) % 3 > 0))}      # two runs in three process two assets in one process
        country = ["us", "generic", "us", "es", "jp", "ie"][(i // 4) % 6] if prop == "C05" else ["us", "generic"][(i // 4) % 2]
        method, sched = None, None
        if country in ("us", "generic"):
            if i % 4 == 3:
                y = min_year(assets)
                sched = [[1970 if k == 0 else y + k, rnd.choice(METHODS)] for k in range(2 + (i // 4) % 3)]
            else:
                method = METHODS[(i % 4 + i // 4) % 4]
        shape = {"C09": ["to", "none"], "C10": ["from", "fromto", "to"], "C06": ["to", "none", "from"], "C07": ["to", "none"]}.get(prop, ["none", "to", "from", "none", "fromto"])[(i + i // 4 + i // 12) % {"C09": 2, "C07": 2, "C10": 3, "C06": 3}.get(prop, 5)]
        if country == "jp" and shape == "fromto":
            shape = "from"
        job = make_job(assets, country, rnd, shape=shape, lang="en" if country == "jp" else None, method=method, sched=sched)
        job["observe"] = ["computed"]
        if country == "generic":
            job["ltcg"] = [365, 1, 366, 30][(i // 8) % 4]
        job["tag"] = f"cli:{country}:{shape}:{'sched' if sched else (method or 'default')}"
        jobs.append(job)
    if prop == "C09":
        # the same multi-asset input truncated at an instant T next to the full input (C09 as a relation between two runs, end to end): what
        # the full run computed for the transactions up to T is what the run on the truncated input computed - also when the assets share a
        # process, row numbers and whatever the engine keeps between assets
        made = tries = 0
        while made < (16 if q else 200) and tries < 5000:
            tries += 1
            assets = {"B1": rnd.choice(pools["Y"]), "B2": rnd.choice(pools[names[tries % len(names)]])}
            ts = sorted({x["t"] for h in assets.values() for x in h})
            if len(ts) < 3:
                continue
            cut = rnd.choice(ts[1:-1])
            small = {a: [x for x in h if x["t"] <= cut] for a, h in assets.items()}
            # after T: a new lot of the first asset followed by a taxable event of it; up to T: the second asset has made a real choice
            late = [x for x in assets["B1"] if x["t"] > cut]
            if not (late and late[0]["cls"] == "in" and len(late) >= 2) or any(not any(x["cls"] == "in" for x in h) for h in small.values()):
                continue
            if sum(x["cls"] == "in" for x in small["B2"]) < 2 or not any(x["cls"] != "in" for x in small["B2"]):
                continue
            country = ["us", "generic"][made % 2]
            full = make_job(assets, country, rnd, shape="none", method=METHODS[1 + made % 3] if made % 4 else "fifo", perm=bool(made % 2))
            full["observe"] = ["computed"]
            if country == "generic":
                full["ltcg"] = 365
            full["tag"] = f"cli:{country}:full_of_pair:{full['args']['method']}"
            full["group"] = made
            tr = copy.deepcopy(full)
            tr["assets"] = small
            if "row_perm" in tr["conc"]["sheet"]:
                tr["conc"]["sheet"]["row_perm"] = {a: [v for v in full["conc"]["sheet"]["row_perm"][a] if v < len(small[a])] for a in small}
            tr["tag"] = full["tag"].replace("full_of_pair", "truncated")
            tr["trunc_of"] = made
            del tr["group"]
            full["truncated_job"] = copy.deepcopy(tr)      # (kept with the full job so that a replay file holds the pair)
            jobs += [full, tr]
            made += 1
    return jobs, stats


def attach_truncated(results, traces):
    """the runs on truncated inputs become observations (prefix length k < m) of the traces of the full runs of their group"""
    small = {r["job"]["trunc_of"]: r for r in results if "trunc_of" in r["job"]}
    n = 0
    for t in traces:
        job = t["meta"].get("cli_job") or {}
        r = small.get(job.get("group"))
        if r is None or "group" not in job:
            continue
        name = t["meta"]["runs"][0]["asset"]
        cd = (r["res"].get("computed") or {}).get(name)
        k = len(r["job"]["assets"][name])
        if r["res"]["exit"] != 0 or cd is None or cd.get("fr_all") is None:
            t["lines"].append({"a": "Obs", "k": k, "from": common.MIN_DAY, "to": common.MAX_DAY, "neg": False, "status": "other", "acct": 0, "ex": True, "trunc": True})
        else:
            obs = {"a": "Obs", "k": k, "from": common.MIN_DAY, "to": common.MAX_DAY, "neg": False, "status": "ok", "acct": 0, "ex": bool(cd.get("ex", True)), "trunc": True}
            obs.update({key: cd[key] for key in ("fr", "lab", "yr", "bal", "ins", "outs", "intras", "tev", "ppu", "sold")})
            t["lines"].append(obs)
        t["meta"]["runs"].append({"cli": r["job"].get("tag", ""), "asset": name, "args": r["job"]["args"], "truncated_to": k})
        n += 1
    return n


def ledger_traces(res):
    """what one end-to-end run computed, per asset, as a trace for spec/Trace_Ledger.tla: the unfiltered fractions are the reference
    behaviour, the date-filtered ComputedData handed to the report generators is an observation of it"""
    job, r = res["job"], res["res"]
    if r["exit"] != 0 or not r.get("computed") or "trunc_of" in job:
        return []
    a = job["args"]
    U = job["conc"]["U"]
    from fractions import Fraction  # pylint: disable=import-outside-toplevel

    sched = job.get("sched") or [[1970, a.get("method") or "fifo"]]
    out = []
    for name, cd in sorted(r["computed"].items()):
        h = job["assets"][name]
        if cd.get("fr_all") is None:
            continue
        c = {"Q": job["conc"]["Q"], "sched": sched, "country": job["country"], "ltcg": job.get("ltcg", 365), "band": int(Fraction(1, 10**10) / Fraction(U))}
        lines = [{"a": "Take", "ev": f[0], "lot": f[1], "amt": f[2], "proc": f[3], "cost": f[4], "gain": f[5], "long": f[6], "ex": bool(cd.get("ex", True))} for f in cd["fr_all"]]
        lines.append({"a": "Done"})
        obs = {"a": "Obs", "k": len(h), "from": a["from"] if a.get("from") is not None else common.MIN_DAY, "to": a["to"] if a.get("to") is not None else common.MAX_DAY,
               "neg": bool(a.get("neg")), "status": "ok", "acct": 0, "ex": bool(cd.get("ex", True))}
        obs.update({k: cd[k] for k in ("fr", "lab", "yr", "bal", "ins", "outs", "intras", "tev", "ppu", "sold")})
        lines.append(obs)
        out.append({"c": c, "h": [dict(x, par=0) for x in h], "m": len(h), "lines": lines,
                    "meta": {"conc": job["conc"], "runs": [{"cli": job.get("tag", ""), "asset": name, "args": a}], "msgs": [], "overflow": False, "neg": bool(a.get("neg")),
                             "tag": job.get("tag", "cli"), "engine_expected": None, "cli_job": job}})
    return out


# ---- negative controls: a corrupted copy of an accepted document must be rejected by a clause of the property --------------------
def mutate(tr, prop, rnd):
    t = copy.deepcopy(tr)
    ok = False
    if prop == "C13":
        cands = [(k, key) for k, e in enumerate(t["as"]) for key in ("ins", "outs", "detail") if e["doc"][key]]
        if cands:
            k, key = rnd.choice(cands)
            rows = t["as"][k]["doc"][key]
            how = rnd.randrange(4)
            if how == 0:
                del rows[rnd.randrange(len(rows))]
            elif how == 1:
                rows.append(copy.deepcopy(rnd.choice(rows)))
            elif how == 2:
                r = rnd.choice(rows)
                r["amt"] += 1
            else:
                r = rnd.choice(rows)
                r["run"] = -5        # (a running sum one unit off can be legitimate among same-instant rows: use an impossible value)
            ok = True
    elif prop == "C05":
        cands = [(k, q) for k, e in enumerate(t["as"]) for q, d in enumerate(e["doc"]["detail"]) if d["lot"] != 0]
        if cands:
            k, q = rnd.choice(cands)
            d = t["as"][k]["doc"]["detail"][q]
            d["long"] = not d["long"]
            ok = True
    elif prop == "C06":
        cands = [k for k, e in enumerate(t["as"]) if e["doc"]["summary"]]
        if cands:
            rows = t["as"][rnd.choice(cands)]["doc"]["summary"]
            rnd.choice(rows)[rnd.choice([3, 4, 5, 6])] += 1
            ok = True
    elif prop == "C07":
        cands = [k for k, e in enumerate(t["as"]) if e["doc"]["balances"]]
        if cands:
            doc = t["as"][rnd.choice(cands)]["doc"]
            if rnd.random() < 0.5 and doc["totals"]:
                rnd.choice(doc["totals"])[1] += 1
            else:
                rnd.choice(doc["balances"])[rnd.choice([1, 2, 3, 4])] += 1
            ok = True
    elif prop == "C19":
        cands = [(k, q) for k, e in enumerate(t["as"]) for q, d in enumerate(e["doc"]["detail"]) if d["lot"] != 0 and d["lotlinks"] and d["lotlinks"][0][0] not in ("", "?")]
        if cands:
            k, q = rnd.choice(cands)
            d = t["as"][k]["doc"]["detail"][q]
            how = rnd.randrange(3)
            if how == 0:
                d["lotlinks"] = [[d["lotlinks"][0][0], "in", d["lotlinks"][0][2] + 1]]
            elif how == 1:
                d["evlinks"] = [["?", "", 0]]
            else:
                d["lotlinks"] = [["B9", "in", d["lotlinks"][0][2]]]
            ok = True
        elif t["sm"]:
            s = rnd.choice(t["sm"])
            s["links"] = [[s["asset"], 99]]
            ok = True
    elif prop == "C14":
        if t["tx"]["rows"]:
            rows = t["tx"]["rows"]
            how = rnd.randrange(4)
            if how == 0:
                del rows[rnd.randrange(len(rows))]
            elif how == 1:
                r = rnd.choice(rows)
                r["sheet"] = "Wages" if r["sheet"] != "Wages" else "Gifts"
            elif how == 2:
                rnd.choice(rows)["proc"] += 1
            else:
                rnd.choice(rows)["sold"] += 1
            ok = True
    elif prop == "C15":
        if t["op"]["asset_rows"]:
            rows = t["op"]["asset_rows"]
            how = rnd.randrange(3)
            if how == 0:
                rnd.choice(rows)["cost"] += 1
            elif how == 1:
                rnd.choice(rows)["bal"] += 1
            else:
                del rows[rnd.randrange(len(rows))]
            ok = True
    elif prop == "C20":
        sheets = t["jp"]["asset_sheets"]
        if sheets:
            how = rnd.randrange(4)
            s = rnd.choice(sheets)
            if how == 0 and s["txs"]:
                del s["txs"][rnd.randrange(len(s["txs"]))]
            elif how == 1:
                s["open_crypto"] = [s["name"], "I", 5]
                s["open_has_ref"] = True
                s["open_zero"] = False
            elif how == 2:
                s["year"] += 7
            else:
                s["close"] += 1
            ok = True
    if not ok:
        return None
    t["meta"] = dict(t["meta"], control=True)
    return t


def has_key(prop):
    return {"C13": "full", "C19": "full", "C14": "tax", "C15": "open", "C20": "jp", "C05": "full", "C06": "full", "C07": "full"}[prop]


def _tx(cls, type_, day, amt, price=2, sec=43200, a1=11, a2=0, fee=0):
    return {"cls": cls, "type": type_, "t": day * 86400 + sec, "off": 0, "a1": a1, "a2": a2, "amt": amt, "fee": fee, "price": price, "ffee": 0,
            "vin": -1, "vwf": -1, "vout": -1, "vfee": -1, "par": 0}


def rowmap_job(scen, rnd):
    """a scenario of spec/MC_RowMap.tla as a real input: per asset `off` leading blank rows, lots hidden by the from-date or not, one sale"""
    assets, blanks = {}, {}
    for k, s in enumerate(scen):
        name = f"B{k + 1}"
        h = [_tx("in", "buy", (100 if (j + 1) in s["hidden"] else 300) + j, 1, price=j + 1) for j in range(s["nlots"])]
        h.sort(key=lambda x: x["t"])
        h.append(_tx("out", "sell", 400, s["nlots"], price=3))
        assets[name] = h
        blanks[name] = [s["off"], 1, 0, 0]
    job = make_job(assets, "us", rnd, shape="none", method="fifo", perm=False)
    job["args"]["from"] = 200
    job["conc"]["sheet"]["blanks_by_asset"] = blanks
    job["tag"] = "rowmap:" + json.dumps(scen, sort_keys=True)
    return job


def jpgen_job(scen, rnd):
    """a scenario of spec/MC_JpGen.tla as a real input: per asset years with an acquisition / a disposal"""
    from datetime import date  # pylint: disable=import-outside-toplevel

    assets = {}
    for k, s in enumerate(scen):
        h = []
        first = min(s["buy"] + s["sell"])
        for y in sorted(s["buy"]):
            h.append(_tx("in", "buy", (date(y, 1, 15) - BASE_DATE).days, len(s["sell"]) + 1 if y == first else 1))
        for y in sorted(s["sell"]):
            h.append(_tx("out", "sell", (date(y, 6, 15) - BASE_DATE).days, 1, price=3))
        if rnd.random() < 0.5:
            # a transfer without fee: listed nowhere in the JP sheets (neither purchase nor sale), so rows printed and transactions differ
            y = rnd.choice(sorted(s["buy"]))
            h.append(_tx("intra", "move", (date(y, 3, 1) - BASE_DATE).days, 1, a1=11, a2=21))
        assets[f"B{k + 1}"] = h      # (in table order: acquisitions first, as the generator meets them)
    job = make_job(assets, "jp", rnd, shape="none", lang=rnd.choice(["en", "kl"]), perm=False)
    job["tag"] = "jpgen:" + json.dumps(scen, sort_keys=True)
    return job


def taxsheets_job(scen, rnd, country):
    """a scenario of spec/MC_TaxSheets.tla as a real input: per asset so many sales, gifts and interest payments (one fraction each)"""
    assets = {}
    for k, s in enumerate(scen):
        n = s["sell"] + s["gift"]
        h = [_tx("in", "buy", 50 + k, max(1, n), price=2)]
        d = 100
        for ty in ("sell", "gift"):
            for _ in range(s[ty]):
                h.append(_tx("out", ty, d, 1, price=3))
                d += 3
        for j in range(s["interest"]):
            h.append(_tx("in", "interest", 90 + 5 * j + k, 1, price=2))
        h.sort(key=lambda x: x["t"])
        assets[f"B{k + 1}"] = h
    job = make_job(assets, country, rnd, shape="none", method="fifo" if country == "us" else None, perm=False)
    job["tag"] = "taxsheets:" + json.dumps(scen, sort_keys=True)
    return job


def design_scenarios(module, cfg_text, tagchar):
    cfg = os.path.join(common.scratch(), f"{module}_emit.cfg")
    with open(cfg, "w", encoding="utf-8") as f:
        f.write(cfg_text)
    rc, out = tlc.run_tlc(module + ".tla", cfg, workers=common.NCPU, tag=module + "emit", heap="4g", timeout=1800)
    res = []
    for line in out.splitlines():
        line = line.strip()
        if line.startswith(f'"{tagchar}|'):
            res.append(json.loads(line[3:-1].replace('\\"', '"')))
    if tlc.tlc_failed(rc, "\n".join(l for l in out.splitlines() if not l.startswith(f'"{tagchar}|'))) or not res:
        raise common.MachineryError(f"scenario generation from {module} failed (rc={rc}): " + out[-1500:])
    gen_, dist = tlc.parse_stats(out)
    res.sort(key=lambda x: json.dumps(x, sort_keys=True))      # (TLC's workers print in no particular order)
    return res, dist, gen_


def model_check_design(prop):
    """the stateful generators as designs (spec/MC_RowMap.tla, spec/MC_JpGen.tla), checked exhaustively"""
    res = []
    for module, props, control in (("MC_RowMap", ("C19",), "MC_RowMap_shared.cfg"), ("MC_JpGen", ("C20",), "MC_JpGen_first_seen.cfg"),
                                   ("MC_TaxSheets", ("C14",), "MC_TaxSheets_per_asset.cfg")):
        if prop not in props:
            continue
        cfg = os.path.join(common.SPEC, module + ".cfg")
        rc, out = tlc.run_tlc(module + ".tla", cfg, workers=common.NCPU, extra=["-coverage", "1"], tag=module, heap="4g", timeout=1800)
        out = "\n".join(l for l in out.splitlines() if not l.startswith(('"M|', '"J|', '"X|')))
        gen_, dist = tlc.parse_stats(out)
        r = {"module": module, "states": dist, "transitions": gen_}
        if "is violated" in out:
            r["violation"] = [l for l in out.splitlines() if "is violated" in l][0]
            r["counterexample"] = "\n".join(l for l in out.split("The coverage statistics")[0].splitlines() if "CostModel" not in l)[-5000:]
        elif tlc.tlc_failed(rc, out.replace("CostModel lookup failed", "")) or dist == 0:
            raise common.MachineryError(f"model checking {module} failed (rc={rc}):\n" + "\n".join(l for l in out.splitlines() if "CostModel" not in l)[-3000:])
        # sensitivity control: the design that the property forbids must be refuted by the same invariant
        rc2, out2 = tlc.run_tlc(module + ".tla", os.path.join(common.SPEC, control), workers=common.NCPU, tag=module + "ctl", heap="4g", timeout=1800)
        r["forbidden_design_refuted"] = "is violated" in out2
        if not r["forbidden_design_refuted"]:
            raise common.MachineryError(f"vacuity: {module} accepts the forbidden design ({control})")
        res.append(r)
    return res


def run(prop, tier, keep_replays=False):
    timer = common.Timer()
    rnd = random.Random(common.seed() * 7919 + int(prop[1:]))
    printed, violations = [], []
    del keep_replays
    mcres = model_check_design(prop)
    states = sum(r["states"] for r in mcres)
    transitions = sum(r["transitions"] for r in mcres)
    for r in mcres:
        if "violation" in r:
            path = common.write_replay(prop, "design_" + r["module"], r)
            violations.append({"kind": "design", "what": r["violation"], "replay": path})
            printed.append(f"VIOLATION property={prop} replay={path}")
    jobs, genstats = plan_jobs(prop, tier, rnd)
    q = tier == "quick"
    if prop == "C19":
        scens, dist, trans = design_scenarios("MC_RowMap", f'CONSTANTS NAssets = {2 if q else 3} Design = "per_asset"\nINIT Init\nNEXT Next\nINVARIANT Emit\nCHECK_DEADLOCK FALSE\n', "M")
        jobs += [rowmap_job(s, rnd) for s in scens]
        genstats.append({"module": "MC_RowMap", "scenarios_replayed": len(scens), "exhaustive": True, "states": dist, "transitions": trans})
    if prop == "C14":
        scens, dist, trans = design_scenarios("MC_TaxSheets", 'CONSTANTS NAssets = 2 Design = "shared_counter"\nINIT Init\nNEXT Next\nINVARIANT Emit\nCHECK_DEADLOCK FALSE\n', "X")
        scens = [s_ for s_ in scens if any(sum(a_.values()) > 0 for a_ in s_)]
        if q:
            scens = rnd.sample(scens, 80)
        jobs += [taxsheets_job(s_, rnd, ["us", "ie"][n_ % 2]) for n_, s_ in enumerate(scens)]
        genstats.append({"module": "MC_TaxSheets", "scenarios_replayed": len(scens), "exhaustive": not q, "states": dist, "transitions": trans})
    if prop == "C20":
        s1, d1, t1 = design_scenarios("MC_JpGen", 'CONSTANTS NAssets = 1 Design = "sorted"\nINIT Init\nNEXT Next\nINVARIANT Emit\nCHECK_DEADLOCK FALSE\n', "J")
        s2, d2, t2 = design_scenarios("MC_JpGen", 'CONSTANTS NAssets = 2 Design = "sorted"\nINIT Init\nNEXT Next\nINVARIANT Emit\nCHECK_DEADLOCK FALSE\n', "J")
        s2 = rnd.sample(s2, min(len(s2), 60 if q else 1500))
        jobs += [jpgen_job(s, rnd) for s in s1 + s2]
        genstats.append({"module": "MC_JpGen", "scenarios_replayed": len(s1) + len(s2), "one_asset_scenarios_exhaustive": len(s1), "states": d1 + d2, "transitions": t1 + t2})
    states += sum(g["states"] for g in genstats)
    transitions += sum(g["transitions"] for g in genstats)
    print(f"[{timer.s():.0f}s] {len(jobs)} end-to-end runs planned", file=sys.stderr)
    results = pool.run_jobs(jobs, chunksize=2)
    print(f"[{timer.s():.0f}s] runs done", file=sys.stderr)
    traces = [build_trace(r) for r in results]
    skipped = [t for t in traces if "skip" in t["meta"]]
    over = [t for t in traces if t["meta"].get("overflow")]
    traces = [t for t in traces if "skip" not in t["meta"] and not t["meta"].get("overflow") and t["has"][has_key(prop)]]
    # a valid, supported input for which the entry point does not complete leaves no document to judge: the report this property is about
    # does not show what it must (the same run is a C16 violation; here it is reported under this property's own clause)
    if skipped:
        path = common.write_replay(prop, "report_is_written_for_valid_input", {
            "property": prop, "clause": f"{prop}.report_is_written_for_valid_input", "failing_traces_with_this_clause": len(skipped),
            "tags": sorted({t["meta"]["tag"] for t in skipped})[:25], "what": skipped[0]["meta"]["skip"][:600], "meta": {"job": skipped[0]["meta"]["job"], "tag": skipped[0]["meta"]["tag"]},
            "reproduce": f"./check {prop} --replay <this file>"})
        violations.append({"kind": "run", "clause": f"{prop}.report_is_written_for_valid_input", "count": len(skipped), "replay": path})
        printed.append(f"VIOLATION property={prop} replay={path}")
    controls = []
    order = list(range(len(traces)))
    rnd.shuffle(order)
    for i in order * (1 + int(os.environ.get("VERIF_CONTROLS", 30)) // max(1, len(order))):
        if len(controls) >= int(os.environ.get("VERIF_CONTROLS", 30)):
            break
        m = mutate(traces[i], prop, rnd)
        if m is not None:
            controls.append((i, m))
    verdicts, st, trn = tlc.validate_traces(traces + [c for _, c in controls], spec="Trace_Docs.tla", shards=min(common.NCPU, max(1, len(traces) // 6)))
    cverd, verdicts = verdicts[len(traces):], verdicts[:len(traces)]
    print(f"[{timer.s():.0f}s] traces validated", file=sys.stderr)
    rule = ("one evaluation = one end-to-end run of a country entry point in a fresh process on a multi-asset input assembled from TLC-generated histories, with the computed data captured "
            f"before the generators and every written document read back; non-trivial = TLC recorded a witness W.{prop}.* (several fractions / hidden lots / shared sheets / several holders / several years)")
    extra = {"rule": rule, "generation": genstats, "runs_not_completed": len(skipped), "runs_skipped_for_lattice_overflow": len(over),
             "first_incomplete_run": skipped[0]["meta"]["skip"][:300] if skipped else ""}
    for t in traces:
        t["meta"]["errors"] = t["meta"].get("errors", [])
    return finish(prop, tier, timer, traces, verdicts, controls, cverd, states + st, transitions + trn, mcres, extra, printed, violations, pipeline="docs", assumptions=ASSUMPTIONS)


def replay(prop, path):
    with open(path, encoding="utf-8") as f:
        rep = json.load(f)
    job = rep["meta"].get("job")
    if job is None:
        print("this replay file records no re-runnable job (a design counterexample): re-run the check instead")
        return 2
    results = pool.run_jobs([job], chunksize=1, procs=1)
    t = build_trace(results[0])
    if "skip" in t["meta"]:
        print("run did not complete:", t["meta"]["skip"])
        print(f"VIOLATION property={prop} replay={path}")
        return 1
    verdicts, _, _ = tlc.validate_traces([t], spec="Trace_Docs.tla", shards=1)
    print(json.dumps({"tag": t["meta"]["tag"], "failing_clauses": verdicts[0]}, indent=1))
    if any(c.startswith(prop + ".") for c, _ in verdicts[0]):
        print(f"VIOLATION property={prop} replay={path}")
        return 1
    print(f"replay of {path}: no clause of {prop} fails on this tree")
    return 0
