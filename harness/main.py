"""./check dispatcher: exit 0 = property held on everything explored, 1 = VIOLATION line(s), 2 = machinery failure."""
import argparse
import os
import sys
import traceback

from . import common

LEDGER = {"C01", "C02", "C03", "C04", "C05", "C06", "C07", "C08", "C09", "C10"}


def main():
    ap = argparse.ArgumentParser()
    ap.add_argument("prop")
    ap.add_argument("--tier", default=os.environ.get("VERIF_TIER", "quick"), choices=["quick", "thorough"])
    ap.add_argument("--replay")
    a = ap.parse_args()
    try:
        if a.prop in LEDGER:
            from . import ledger_main

            rc = ledger_main.replay(a.prop, a.replay) if a.replay else ledger_main.run(a.prop, a.tier)
        elif a.prop in ("C11", "C12"):
            from . import sheet_main

            rc = sheet_main.replay(a.prop, a.replay) if a.replay else sheet_main.run(a.prop, a.tier)
        else:
            common.die_machinery(f"no check for {a.prop}")
    except common.MachineryError as exc:
        common.die_machinery(str(exc))
    except SystemExit:
        raise
    except Exception:  # pylint: disable=broad-except
        traceback.print_exc()
        sys.exit(2)
    sys.exit(rc)


if __name__ == "__main__":
    main()
