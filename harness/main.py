"""./check dispatcher: exit 0 = property held on everything explored, 1 = VIOLATION line(s), 2 = machinery failure."""
import argparse
import os
import sys
import traceback

from . import common

LEDGER = {"C01", "C02", "C03", "C04", "C05", "C06", "C07", "C08", "C09", "C10"}


def _load_evidence(prop):
    import json

    with open(os.path.join(common.EVIDENCE, f"{prop}.json"), encoding="utf-8") as f:
        return json.load(f)


def _merge_evidence(prop, tier, ev1, ev2, names=("API level", "CLI level")):
    c1, c2 = ev1["coverage"], ev2["coverage"]
    cov = {k: c1[k] + c2[k] for k in ("states", "transitions", "traces_validated_against_impl", "evaluations", "distinct_nontrivial")}
    cov["samples"] = c1["samples"][:1] + c2["samples"][:1]
    cov["rule"] = names[0] + ": " + c1["rule"] + " || " + names[1] + ": " + c2["rule"]
    cov["exhaustive"] = bool(c1.get("exhaustive") and c2.get("exhaustive"))
    cov["api_level"] = {k: v for k, v in c1.items() if k not in ("samples", "rule")}
    cov["cli_level"] = {k: v for k, v in c2.items() if k not in ("samples", "rule")}
    common.write_evidence(prop, tier, "model_checking", cov, ev1["wall_s"] + ev2["wall_s"], ev1.get("violations", 0) + ev2.get("violations", 0),
                          sorted(set(ev1["assumptions"]) | set(ev2["assumptions"])))


def main():
    ap = argparse.ArgumentParser()
    ap.add_argument("prop")
    ap.add_argument("--tier", default=os.environ.get("VERIF_TIER", "quick"), choices=["quick", "thorough"])
    ap.add_argument("--replay")
    a = ap.parse_args()
    if not a.replay:
        common.clear_replays(a.prop)      # replay files of earlier runs of this check (this run writes the ones that apply to it)
    try:
        if a.prop in ("C05", "C06", "C07"):
            # ledger level (compute_tax) and document level (the tables of the written reports that carry the same figures)
            from . import docs_main, ledger_main

            if a.replay:
                import json

                with open(a.replay, encoding="utf-8") as f:
                    rep = json.load(f)
                is_doc = isinstance(rep.get("meta"), dict) and isinstance(rep["meta"].get("job"), dict) and rep["meta"]["job"].get("kind") == "cli"
                rc = docs_main.replay(a.prop, a.replay) if is_doc else ledger_main.replay(a.prop, a.replay)
            else:
                rc1 = ledger_main.run(a.prop, a.tier)
                ev1 = _load_evidence(a.prop)
                rc2 = docs_main.run(a.prop, a.tier, keep_replays=True)
                ev2 = _load_evidence(a.prop)
                _merge_evidence(a.prop, a.tier, ev1, ev2, ("API level (compute_tax)", "document level (written reports)"))
                rc = max(rc1, rc2)
        elif a.prop in LEDGER:
            from . import ledger_main

            rc = ledger_main.replay(a.prop, a.replay) if a.replay else ledger_main.run(a.prop, a.tier)
        elif a.prop == "C11":
            from . import sheet_main

            rc = sheet_main.replay(a.prop, a.replay) if a.replay else sheet_main.run(a.prop, a.tier)
        elif a.prop == "C12":
            from . import run_main, sheet_main

            if a.replay:
                rc = run_main.replay(a.prop, a.replay) if '"trace"' in open(a.replay, encoding="utf-8").read()[:4000] else sheet_main.replay(a.prop, a.replay)
            else:
                rc1 = sheet_main.run("C12", a.tier)      # API level: every fault at every row / field position
                ev1 = _load_evidence("C12")
                rc2 = run_main.run("C12", a.tier)        # CLI level: exit status, error message, no report
                ev2 = _load_evidence("C12")
                _merge_evidence("C12", a.tier, ev1, ev2)
                rc = max(rc1, rc2)
        elif a.prop in ("C13", "C14", "C15", "C19", "C20"):
            from . import docs_main

            rc = docs_main.replay(a.prop, a.replay) if a.replay else docs_main.run(a.prop, a.tier)
        elif a.prop in ("C16", "C17", "C18"):
            from . import run_main

            rc = run_main.replay(a.prop, a.replay) if a.replay else run_main.run(a.prop, a.tier)
        else:
            common.die_machinery(f"no check for {a.prop}")
    except common.MachineryError as exc:
        common.die_machinery(str(exc))
    except SystemExit:
        raise
    except Exception:  # pylint: disable=broad-except
        traceback.print_exc()
        sys.exit(2)
    sys.exit(rc)


if __name__ == "__main__":
    main()
