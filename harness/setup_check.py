"""setup_cmd: parse every specification module with SANY, byte-compile the harness in memory,
check that the toolchain the checks rely on is present.  Builds nothing that needs the network."""
import glob
import os
import py_compile
import subprocess
import sys
import tempfile

HERE = os.path.dirname(os.path.abspath(__file__))
VERIF = os.path.dirname(HERE)
CP = "/opt/veriftools/tla/tla2tools.jar:/opt/veriftools/tla/CommunityModules-deps.jar"


def main():
    ok = True
    for tla in sorted(glob.glob(os.path.join(VERIF, "spec", "*.tla"))):
        p = subprocess.run(["java", "-cp", CP, "tla2sany.SANY", tla], cwd=os.path.join(VERIF, "spec"), capture_output=True, text=True, check=False)
        bad = p.returncode != 0 or "*** Errors" in p.stdout or "Fatal" in p.stdout
        print(("FAIL " if bad else "ok   ") + os.path.basename(tla))
        if bad:
            print(p.stdout[-2000:])
            ok = False
    with tempfile.TemporaryDirectory() as d:
        for py in sorted(glob.glob(os.path.join(HERE, "*.py"))):
            try:
                py_compile.compile(py, cfile=os.path.join(d, os.path.basename(py) + "c"), doraise=True)
            except py_compile.PyCompileError as exc:
                print("FAIL", py, exc)
                ok = False
    p = subprocess.run(["/venv/bin/python", "-c", "import sys; sys.path.insert(0, '/repo/src'); import ezodf, prezzemolo, dateutil, jsonschema"],
                       capture_output=True, text=True, cwd=tempfile.gettempdir(), check=False)
    if p.returncode != 0:
        print("FAIL python dependencies of rp2 missing:", p.stderr[-500:])
        ok = False
    print("setup", "ok" if ok else "FAILED")
    sys.exit(0 if ok else 1)


if __name__ == "__main__":
    main()
