"""The ledger pipeline (properties C01..C10): model-check the design (MC_Ledger), let TLC generate
histories (Gen_Hist), run the real rp2 on each of them under several configurations and several
views (prefixes, to-dates, windows, -n), and have TLC judge every recorded execution against
Rp2Ledger (Trace_Ledger).  A check reports the clauses that belong to its own property (P8)."""
import copy
import json
import random

from . import common, gen, pool, tlc

METHODS = ["fifo", "lifo", "hifo", "lofo"]
SINGLES = [[[1970, m]] for m in METHODS]
PAIRS = [[[1970, a], [2020, b]] for a in METHODS for b in METHODS if a != b]
TRIPLES = [[[1970, a], [2020, b], [2021, a]] for a in METHODS for b in METHODS if a != b]

UNITS = {
    "plain": [("1", "1"), ("0.5", "10"), ("0.00000001", "25000"), ("0.123", "3.7"), ("1000", "0.01")],
    # C04: amounts 1e-11 .. 1e9, prices 1e-8 .. 1e7
    # (fiat values below 5e-14 are zero for rp2's 13-decimal comparisons and rejected when supplied: U*P stays >= 1e-11)
    "sweep": [("0.00000000001", "10000000"), ("0.00000000001", "1"), ("0.001", "0.00000001"), ("250000000", "0.00000001"), ("250000000", "2500000"),
              ("0.00000001", "43210.98765432"), ("0.33333333333", "0.7"), ("123456.78901234567", "0.00012345"), ("1", "1")],
    # C08: every lattice overdraft exceeds 1e-10
    "coarse": [("0.0000000002", "1"), ("1", "1"), ("0.5", "10")],
    # spreadsheet mode (the history goes through a generated .ods and parse_ods): cells are read with 11 decimals, so U, P and U*P have at most
    # 11 decimals; one pair gives amounts with more than 11 significant digits
    # (every cell value must survive float -> "%.11f" exactly - at most 15 significant digits in all, amounts and supplied fiat values alike:
    # a residue of 1e-11 in an amount would be a fraction of its own, noise in a supplied value would not cancel in sums that should be zero)
    # (a double carries 11 exact decimals only below about 3e4: prices, amounts and supplied values all stay below that)
    "ods": [("0.5", "10"), ("0.3333333", "0.7"), ("0.00000001", "4321.98"), ("123.456", "0.00012345"), ("1234.56789012", "0.5"), ("0.0001234567", "9876.5")],
    # C08: single debits below the 1e-10 tolerance that add up beyond it (4e-11: one and two units inside the band, three must be rejected)
    "dust": [("0.00000000004", "1000"), ("0.00000000006", "1000")],
}


def day_of(x):
    return (x["t"] + x["off"]) // 86400


def cuts(h):
    """prefix lengths k at which the history can be cut between two distinct timestamps (and the full length)"""
    return [k for k in range(1, len(h) + 1) if k == len(h) or h[k]["t"] > h[k - 1]["t"]]


def full_run(h, neg=False):
    return {"k": len(h), "from": common.MIN_DAY, "to": common.MAX_DAY, "neg": neg}


# ---- which real runs are performed on a history, per property ---------------------------------
def runs_full(h, c, rnd, tier):
    return [full_run(h, c["neg"])]


def runs_prefixes(h, c, rnd, tier):
    return [{"k": k, "from": common.MIN_DAY, "to": common.MAX_DAY, "neg": c["neg"]} for k in cuts(h)]


def _todate_days(h):
    days = sorted({day_of(x) for x in h})
    cand = set()
    for d in days:
        cand.update((d - 1, d, d + 1))
    return sorted(cand)


def runs_todates(h, c, rnd, tier):
    """full run, every prefix, and -t on / before / after transaction dates"""
    runs = runs_prefixes(h, c, rnd, tier)
    days = _todate_days(h)
    if tier == "quick" and len(days) > 3:
        days = sorted(rnd.sample(days, 3))
    runs += [{"k": len(h), "from": common.MIN_DAY, "to": d, "neg": c["neg"]} for d in days]
    return runs


def runs_windows(h, c, rnd, tier):
    days = _todate_days(h)
    years = sorted({d // 365 for d in days})
    special = set()
    for y in range(0, 5):
        special.update((y * 365 + (1 if y > 1 else 0), y * 365 + 180, y * 365 + 364 + (1 if y > 0 else 0)))  # ~1 Jan, mid-year, ~31 Dec
    cand = sorted(set(days) | {d for d in special if days[0] - 400 <= d <= days[-1] + 400})
    wins = [(f, t) for f in [common.MIN_DAY] + cand for t in cand + [common.MAX_DAY] if f <= t and not (f == common.MIN_DAY and t == common.MAX_DAY)]
    limit = 12 if tier == "quick" else 60
    if len(wins) > limit:
        wins = rnd.sample(wins, limit)
    del years
    return [full_run(h, c["neg"])] + [{"k": len(h), "from": f, "to": t, "neg": c["neg"]} for f, t in wins]


def runs_neg(h, c, rnd, tier):
    """every prefix, with and without -n"""
    runs = []
    for k in cuts(h):
        runs.append({"k": k, "from": common.MIN_DAY, "to": common.MAX_DAY, "neg": False})
        runs.append({"k": k, "from": common.MIN_DAY, "to": common.MAX_DAY, "neg": True})
    return runs


def runs_neg_windows(h, c, rnd, tier):
    """from / to windows, with and without -n (balances reflect all history up to the to-date whatever the from-date)"""
    runs = [full_run(h, False), full_run(h, True)]      # (with -n the full run always completes: the reference behaviour of the trace)
    for n, r in enumerate(runs_windows(h, c, rnd, tier)[1:]):
        runs.append(dict(r, neg=bool(n % 2)))
    return runs


# ---- which configurations a history is run under ----------------------------------------------
def spans_2020(h):
    ys = {day_of(x) >= 365 for x in h}
    return len(ys) == 2


def cfg_methods(h, rnd, tier, country="us"):
    scheds = list(SINGLES)
    if spans_2020(h):
        scheds += PAIRS if tier == "thorough" else rnd.sample(PAIRS, 3)
        if tier == "thorough":
            scheds += rnd.sample(TRIPLES, 3)
    years = sorted({2019 + (day_of(x) >= 365) + (day_of(x) >= 731) + (day_of(x) >= 1096) for x in h})
    if len(years) >= 3:
        # an entry for every year the history touches (three or four entries), methods drawn at random: a different method family from year to year
        for _ in range(2 if tier == "quick" else 6):
            ms = [rnd.choice(METHODS) for _ in years]
            scheds.append([[1970 if i == 0 else y, m] for i, (y, m) in enumerate(zip(years, ms))])
    return [{"country": country, "ltcg": 0, "sched": s, "neg": False} for s in scheds]


def cfg_two_methods(h, rnd, tier):
    ms = rnd.sample(SINGLES, 2) if tier == "quick" else SINGLES
    return [{"country": "us", "ltcg": 0, "sched": s, "neg": False} for s in ms]


def cfg_one_method(h, rnd, tier):
    ms = rnd.sample(SINGLES, 1) if tier == "quick" else rnd.sample(SINGLES, 2)
    return [{"country": "us", "ltcg": 0, "sched": s, "neg": False} for s in ms]


def cfg_countries(h, rnd, tier):
    res = []
    for country, ltcg in (("us", 0), ("jp", 0), ("es", 0), ("ie", 0), ("generic", 0), ("generic", 1), ("generic", 366), ("generic", 1000000000)):
        s = [[1970, "fifo"]] if country in ("jp", "es", "ie") else rnd.choice(SINGLES)
        res.append({"country": country, "ltcg": ltcg, "sched": s, "neg": False})
    return res


BATCH_DEFAULTS = {"mode": "valid", "sim": None, "depth": None, "sample": None, "configs": cfg_methods, "runs": runs_full, "units": "plain", "ods": False}


def B(slice_, maxtx, **kw):
    b = dict(BATCH_DEFAULTS)
    b.update(slice=slice_, maxtx=maxtx)
    b.update(kw)
    return b


def plan(prop, tier):
    """(model-checking runs, generation batches) of a property's check"""
    q = tier == "quick"
    if prop == "C01":
        mc = [("A", 3, "valid", "single")] if q else [("A", 3, "valid", "all"), ("C", 3, "valid", "single"), ("D", 2, "valid", "all")]
        # (thorough: A to 4 transactions is 131k histories, C to 3 is 54k, D to 3 is 79k - each under up to 23 method schedules: sampled, the whole
        # set does not fit in memory next to its traces)
        bs = [B("A", 3 if q else 4, sample=None if q else 40000), B("C", 3, sample=1500 if q else 15000), B("D", 2 if q else 3, sample=None if q else 20000), B("B", 3, sample=2000 if q else None),
              B("Y", 4, sample=400 if q else 6000),           # four calendar years: schedules with three and four entries
              B("F", 3, ods=True, sample=400 if q else None),  # through the spreadsheet: acquisitions with a crypto fee (artificial fee disposals take part in matching)
              B("B", 4, runs=runs_windows, configs=cfg_one_method, sample=600 if q else 6000),   # under a from-date: fees of earlier transfers have taken their part of the lots
              *([B("A", 4, sample=2500)] if q else []),       # (quick: a sample of the depth that thorough takes in full)
              B("A", 12, sim=150 if q else 3000, depth=12), B("Y", 10, sim=100 if q else 2000, depth=10)]
    elif prop == "C02":
        mc = [("A", 3, "any", "single")] if q else [("A", 3, "any", "all"), ("B", 3, "any", "single")]
        bs = [B("A", 3, mode="any", runs=runs_prefixes, configs=cfg_two_methods, sample=4000 if q else None),
              B("A", 3 if q else 4, sample=40000 if not q else 4000), B("B", 3, mode="any", runs=runs_prefixes, configs=cfg_one_method, sample=1500 if q else None),
              *([B("A", 4, sample=2500, configs=cfg_two_methods)] if q else []),
              B("F", 3, ods=True, runs=runs_prefixes, configs=cfg_two_methods, sample=300 if q else None),
              B("B", 4, runs=runs_windows, configs=cfg_one_method, sample=600 if q else 6000),     # a date filter must not change which lots are consumed
              B("C", 3, configs=cfg_two_methods, sample=2500 if q else 15000),
              B("D", 2 if q else 3, mode="any", runs=runs_prefixes, configs=cfg_two_methods, sample=None if q else 20000),
              B("A", 12, sim=150 if q else 3000, depth=12)]
    elif prop == "C03":
        mc = [("T", 2, "valid", "single")] if q else [("T", 3, "valid", "single")]
        bs = [B("T", 3 if q else 4, configs=cfg_one_method, sample=6000 if q else 60000), B("B", 3, configs=cfg_one_method, sample=1500 if q else None),
              B("M", 3, configs=cfg_one_method, sample=1500 if q else 20000),      # transfers between all pairs of accounts, self-transfers with a fee included
              B("F", 3, ods=True, configs=cfg_one_method, sample=400 if q else None),   # the artificial fee disposal of a crypto-fee acquisition is a taxable event
              B("T", 12, sim=150 if q else 2000, depth=12, configs=cfg_one_method)]
    elif prop == "C04":
        mc = [("V", 2, "valid", "single")] if q else [("V", 3, "valid", "single"), ("B", 3, "valid", "single")]
        bs = [B("V", 3, units="sweep", configs=cfg_one_method, sample=2500 if q else None), B("D", 2 if q else 3, units="sweep", configs=cfg_one_method),
              B("B", 3, units="sweep", configs=cfg_one_method, sample=1500 if q else None),
              B("V", 10, sim=100 if q else 2000, depth=10, units="sweep", configs=cfg_two_methods),
              # the same figures when the transactions come through a spreadsheet (numbers with many digits, crypto fees, exchange-supplied values)
              B("V", 3, ods=True, configs=cfg_one_method, sample=500 if q else None), B("F", 3, ods=True, configs=cfg_one_method, sample=300 if q else None),
              B("V", 3, runs=runs_windows, units="sweep", configs=cfg_one_method, sample=300 if q else 4000)]     # a date filter only selects fractions: those shown keep their figures
    elif prop == "C05":
        mc = [("Y", 3, "valid", "single")] if q else [("Y", 3, "valid", "all")]      # (depth 4 of this slice does not finish within the time limit)
        bs = [B("Y", 3 if q else 4, configs=cfg_countries, sample=400 if q else 6000), B("C", 3, configs=cfg_countries, sample=300 if q else 3000),
              # holding periods one second around 1, 365 and 366 days, three UTC offsets: every acquisition / disposal pair, and longer histories
              B("P", 2, configs=cfg_countries, sample=600 if q else None), B("P", 4, sim=150 if q else 3000, depth=4, configs=cfg_countries)]
        bs.append(B("Y", 3, runs=runs_windows, configs=cfg_countries, sample=150 if q else 3000))      # ... and their term
        if not q:
            bs.append(B("P", 3, configs=cfg_countries, sample=20000))
    elif prop == "C06":
        mc = [("Y", 3, "valid", "single")] if q else [("Y", 3, "valid", "all")]      # (depth 4 of this slice does not finish within the time limit)
        bs = [B("Y", 3 if q else 4, runs=runs_todates, configs=cfg_one_method, sample=1500 if q else 20000),
              B("T", 3, runs=runs_todates, configs=cfg_one_method, sample=1000 if q else 6000),
              B("Z", 3 if q else 4, runs=runs_todates, configs=cfg_one_method, sample=800 if q else 20000),
              B("C", 3, runs=runs_full, configs=cfg_one_method, sample=500 if q else 5000),
              B("Y", 12, sim=100 if q else 1500, depth=12, runs=runs_todates, configs=cfg_one_method)]
    elif prop == "C07":
        mc = [("M", 2, "valid", "single")] if q else [("M", 3, "valid", "single"), ("B", 3, "valid", "single")]
        bs = [B("M", 3, runs=runs_todates, configs=cfg_one_method, sample=1500 if q else 30000), B("B", 3, runs=runs_todates, configs=cfg_one_method, sample=1000 if q else None),
              B("M", 3, mode="any", runs=runs_neg, configs=cfg_one_method, sample=800 if q else 10000),
              B("Z", 3 if q else 4, runs=runs_todates, configs=cfg_one_method, sample=800 if q else 20000),
              B("M", 3, runs=runs_windows, configs=cfg_one_method, sample=300 if q else 5000),       # balances reflect all history up to the to-date whatever the from-date
              B("F", 3, ods=True, runs=runs_todates, configs=cfg_one_method, sample=300 if q else None),   # crypto fees on acquisitions leave the account too
              B("M", 10, sim=100 if q else 1500, depth=10, runs=runs_todates, configs=cfg_one_method)]
    elif prop == "C08":
        mc = [("M", 2, "any", "single")] if q else [("M", 3, "any", "single")]
        bs = [B("M", 3, mode="any", runs=runs_neg, configs=cfg_one_method, units="coarse", sample=2500 if q else 40000),
              B("B", 3, mode="any", runs=runs_neg, configs=cfg_one_method, units="coarse", sample=800 if q else None),
              B("M", 3, runs=runs_neg, configs=cfg_one_method, units="coarse", sample=800 if q else 10000),
              B("M", 9, sim=100 if q else 1500, depth=9, mode="any", runs=runs_neg, configs=cfg_one_method, units="coarse"),
              B("M", 7, sim=150 if q else 2000, depth=7, mode="any", runs=runs_neg, configs=cfg_one_method, units="dust"),
              # an account drawn below zero one unit at a time, the unit below / at the tolerance: every history to 5 (thorough 6) transactions
              B("O", 5 if q else 6, mode="covered", runs=runs_neg, configs=cfg_one_method, units="dust"),
              B("O", 4 if q else 5, mode="covered", runs=runs_neg, configs=cfg_one_method, units="coarse"),
              B("M", 3, mode="any", runs=runs_neg_windows, configs=cfg_one_method, units="coarse", sample=500 if q else 8000),     # an overdraft before the from-date still counts
              # a non-UTC offset, every transaction within hours of midnight: a debit belongs to the day written in its own timestamp, so a to-date on
              # that day includes it (an overdraft on the to-date itself is an overdraft)
              B("Z", 3, mode="covered", runs=runs_neg_windows, configs=cfg_one_method, units="coarse", sample=600 if q else 10000)]
    elif prop == "C09":
        mc = [("A", 3, "valid", "single")] if q else [("A", 3, "valid", "all")]
        bs = [B("A", 3 if q else 4, runs=runs_todates, configs=cfg_methods, sample=2500 if q else 25000),
              B("Y", 3, runs=runs_todates, configs=cfg_two_methods, sample=800 if q else None),
              B("B", 3, runs=runs_todates, configs=cfg_one_method, sample=600 if q else None),
              B("Z", 3 if q else 4, runs=runs_todates, configs=cfg_two_methods, sample=600 if q else 8000),
              B("C", 3, runs=runs_prefixes, configs=cfg_two_methods, sample=2500 if q else 10000),
              B("C", 7, sim=250 if q else 4000, depth=7, runs=runs_prefixes, configs=cfg_methods),      # longer mixed-offset histories: a later lot must not disturb earlier pairings
              B("W", 4, runs=runs_prefixes, configs=cfg_two_methods, sample=5000 if q else 20000),     # wall-clock order against instant order (145k histories to 4 transactions: sampled)
              B("A", 12, sim=100 if q else 2000, depth=12, runs=runs_todates, configs=cfg_two_methods)]
    elif prop == "C10":
        mc = [("Y", 3, "valid", "single")] if q else [("Y", 3, "valid", "all")]      # (depth 4 of this slice does not finish within the time limit)
        bs = [B("Y", 3 if q else 4, runs=runs_windows, configs=cfg_one_method, sample=700 if q else 8000),
              B("A", 3, runs=runs_windows, configs=cfg_one_method, sample=500 if q else 5000),
              B("B", 3, runs=runs_windows, configs=cfg_one_method, sample=300 if q else 3000),
              B("Z", 3 if q else 4, runs=runs_windows, configs=cfg_one_method, sample=500 if q else 8000),
              B("C", 3, runs=runs_windows, configs=cfg_one_method, sample=400 if q else 6000),   # mixed UTC offsets around new year (class of known finding D8 included)
              B("Y", 10, sim=60 if q else 800, depth=10, runs=runs_windows, configs=cfg_one_method)]
    else:
        raise common.MachineryError(f"no ledger plan for {prop}")
    return mc, bs


# ---- negative controls (P7): corrupted copies of accepted traces must be rejected -----------------
def mutate(trace, prop, rnd):
    """a corrupted copy of an accepted trace that violates `prop`, or None if this trace offers no handle"""
    t = copy.deepcopy(trace)
    lines = t["lines"]
    takes = [i for i, ln in enumerate(lines) if ln["a"] == "Take"]
    lot_takes = [i for i in takes if lines[i]["lot"] != 0]
    obs = [i for i, ln in enumerate(lines) if ln["a"] == "Obs" and ln["status"] == "ok"]
    lots = [p + 1 for p, x in enumerate(t["h"]) if x["cls"] == "in"]
    if prop == "C01":
        # the fraction is re-attributed to a lot that the method in force ranks strictly worse than the lot really taken (which then still has
        # balance and is passed over): the corruption is a C01 violation whatever the ties
        def method_of(ev):
            from datetime import timedelta
            from .rp2api import BASE_DATE
            y = (BASE_DATE + timedelta(days=day_of(t["h"][ev - 1]))).year
            ms = [m for yy, m in t["c"]["sched"] if yy <= y]
            return ms[-1] if ms else "fifo"

        def worse(m, l, c):
            a, b = t["h"][l - 1], t["h"][c - 1]
            return {"fifo": a["t"] > b["t"], "lifo": a["t"] < b["t"], "hifo": a["price"] < b["price"], "lofo": a["price"] > b["price"]}[m]

        nh = len(t["h"])      # (artificial fee disposals of spreadsheet-mode traces have positions beyond the given history: not used for controls)
        cand = [(i, l) for i in lot_takes for l in lots if lines[i]["ev"] <= nh and lines[i]["lot"] <= nh and l != lines[i]["lot"]
                and t["h"][l - 1]["t"] <= t["h"][lines[i]["ev"] - 1]["t"] and worse(method_of(lines[i]["ev"]), l, lines[i]["lot"])]
        if not cand:
            return None
        i, l = rnd.choice(cand)
        lines[i]["lot"] = l
    elif prop == "C02":
        if not lot_takes:
            return None
        lines[rnd.choice(lot_takes)]["amt"] += 1
    elif prop == "C03":
        if not takes:
            return None
        ev = lines[rnd.choice(takes)]["ev"]      # a taxable event disappears from the report (all its fractions)
        t["lines"] = lines = [ln for ln in lines if not (ln["a"] == "Take" and ln["ev"] == ev)]
    elif prop == "C04":
        if not takes:
            return None
        i = rnd.choice(takes)
        lines[i][rnd.choice(["proc", "cost"] if lines[i]["lot"] else ["proc"])] += 1
    elif prop == "C05":
        if not takes:
            return None
        i = rnd.choice(takes)
        lines[i]["long"] = not lines[i]["long"]
    elif prop == "C06":
        cand = [i for i in obs if lines[i]["yr"]]
        if not cand:
            return None
        i = rnd.choice(cand)
        lines[i]["yr"][rnd.randrange(len(lines[i]["yr"]))][rnd.choice([3, 4, 5, 6])] += 1
    elif prop == "C07":
        cand = [i for i in obs if lines[i]["bal"]]
        if not cand:
            return None
        i = rnd.choice(cand)
        lines[i]["bal"][rnd.randrange(len(lines[i]["bal"]))][rnd.choice([1, 2, 3, 4])] += 1
    elif prop == "C08":
        cand = [i for i, ln in enumerate(lines) if ln["a"] == "Obs" and ln["status"] == "balance"]
        # (with units below the tolerance a small negative balance may or may not be rejected: such traces offer no "must not reject" control)
        okneg = [i for i in obs if not lines[i]["neg"]] if t["meta"]["conc"]["U"] not in [u for u, _ in UNITS["dust"]] else []
        if cand and rnd.random() < 0.5:
            lines[rnd.choice(cand)]["acct"] = 31
        elif okneg:
            i = rnd.choice(okneg)
            lines[i].update(status="balance", acct=lines[i]["bal"][0][0] if lines[i]["bal"] else 11)
        else:
            return None
    elif prop == "C09":
        cand = [i for i in obs if (lines[i]["k"] < t["m"] or (lines[i]["to"] != common.MAX_DAY and lines[i]["from"] == common.MIN_DAY)) and lines[i]["fr"]]
        if not cand:
            return None
        i = rnd.choice(cand)
        lines[i]["fr"][rnd.randrange(len(lines[i]["fr"]))][2] += 1
    elif prop == "C10":
        cand = [i for i in obs if (lines[i]["to"] != common.MAX_DAY or lines[i]["from"] != common.MIN_DAY) and lines[i]["ins"]]
        if not cand:
            return None
        i = rnd.choice(cand)
        lines[i]["ins"].pop()
    else:
        return None
    t["meta"] = dict(t["meta"], control=True)
    return t


def make_jobs(prop, tier, rnd):
    mc_plan, batches = plan(prop, tier)
    jobs = []
    genstats = []
    from concurrent.futures import ThreadPoolExecutor

    # (batches that draw on the same generated space share one TLC run)
    keys = sorted({(b["slice"], b["maxtx"], b["mode"], b["sim"], b["depth"]) for b in batches}, key=str)
    with ThreadPoolExecutor(max_workers=4) as ex:
        outs = dict(zip(keys, ex.map(lambda k: gen.histories(k[0], k[1], k[2], simulate=k[3], depth=k[4]), keys)))
    generated = [outs[(b["slice"], b["maxtx"], b["mode"], b["sim"], b["depth"])] for b in batches]
    for b, (hs, dist, trans, exhaustive) in zip(batches, generated):
        total = len(hs)
        if b["sim"] and len(hs) > b["sim"]:
            # TLC also prints the sibling successors it generated at the last step: keep as many histories as behaviours asked for
            hs = rnd.sample(hs, b["sim"])
        if b["sample"] and len(hs) > b["sample"]:
            hs = rnd.sample(hs, b["sample"])
        genstats.append({"slice": b["slice"], "maxtx": b["maxtx"], "mode": b["mode"], "simulated_behaviours": b["sim"], "histories_generated": total,
                         "histories_run": len(hs), "exhaustive": bool(exhaustive and len(hs) == total), "states": dist, "transitions": trans})
        units = UNITS[b["units"]]
        for n, h in enumerate(hs):
            for c in b["configs"](h, rnd, tier):
                U, P = units[rnd.randrange(len(units))] if b["units"] != "sweep" else units[n % len(units)]
                if b["ods"]:
                    U, P = UNITS["ods"][n % len(UNITS["ods"])]
                jobs.append({"h": h, "c": c, "conc": {"U": U, "P": P, "rows": list(range(2, 2 + len(h))), "mode": "ods" if b["ods"] else "api"},
                             "runs": b["runs"](h, c, rnd, tier), "tag": f'{b["slice"]}{b["maxtx"]}{"s" if b["sim"] else ""}'})
    # G-fix: witnesses of defects that were found and repaired (known_findings.json, "fixed"): they must stay repaired
    import os

    wpath = os.path.join(common.VERIF, "witnesses", "ledger.json")
    if os.path.exists(wpath):
        with open(wpath, encoding="utf-8") as f:
            for w in json.load(f):
                jobs.append({k: v for k, v in w.items() if k != "id"})
    return mc_plan, jobs, genstats


def known_class_ids(prop):
    """ids of the findings listed in known_findings.json for this property that are identified as a class by the specification (clauses K.<prop>.<id>.*)"""
    return {f["id"] for f in common.load_known_findings().get("findings", []) if f.get("property") == prop and f.get("class_clause")}


def judge(prop, traces, verdicts, known_hits=None):
    """split verdicts into violations of `prop`, witnesses, clauses of other properties, machinery problems.
    A clause K.<prop>.<id>.<text> marks a member of a listed finding's class: it counts as that known finding if the file lists <id>,
    and as an ordinary violation <prop>.<text> otherwise (the file, not the specification, decides what is known)."""
    viol, nontrivial, other, structural = [], 0, {}, []
    listed = known_class_ids(prop)
    for i, v in enumerate(verdicts):
        v2 = []
        for c, l in v:
            if c.startswith(f"K.{prop}."):
                fid, text = c.split(".", 3)[2:4]
                if fid in listed:
                    if known_hits is not None:
                        known_hits[fid] = known_hits.get(fid, 0) + 1
                    continue
                c = f"{prop}.{text}"
            v2.append((c, l))
        v = v2
        mine = [(c, l) for c, l in v if c.startswith(prop + ".")]
        if any(c.startswith(f"W.{prop}.") for c, _ in v):
            nontrivial += 1
        for c, _ in v:
            if c.startswith("S."):
                structural.append((i, c))
            elif not c.startswith("W.") and not c.startswith(prop + "."):
                other[c] = other.get(c, 0) + 1
        if mine:
            viol.append((i, mine))
    return viol, nontrivial, other, structural


def trace_key(t):
    return json.dumps([t["h"], t["c"]["sched"], t["c"]["country"], t["c"]["ltcg"], t["meta"]["conc"], t["meta"]["runs"]], sort_keys=True)
