"""Reader for the reports rp2 writes (ODS = zip + content.xml), independent of ezodf: sheet -> rows -> cells.

A cell is None (empty) or [kind, value, formula]: kind "n" (number: the decimal text of office:value, or of the literal inside a
HYPERLINK formula), "s" (string), "d" (date / time text), formula = the table:formula text or None.  Repeated rows / cells are
expanded (bounded); trailing empty cells and rows are dropped.  No interpretation happens here (harness.docs projects the cells onto
the abstract documents of spec/Rp2Docs.tla)."""
import os
import re
import xml.etree.ElementTree as ET
import zipfile

NS = {"table": "urn:oasis:names:tc:opendocument:xmlns:table:1.0", "office": "urn:oasis:names:tc:opendocument:xmlns:office:1.0",
      "text": "urn:oasis:names:tc:opendocument:xmlns:text:1.0"}
T = "{%s}" % NS["table"]
O = "{%s}" % NS["office"]
X = "{%s}" % NS["text"]
MAX_ROWS, MAX_COLS = 4000, 64

_HYPER = re.compile(r'^(?:of:)?=HYPERLINK\("#(.*)\.a(\d+):z(\d+)"; (.*)\)$', re.S)


def _text(cell):
    parts = []
    for p in cell.iter(X + "p"):
        parts.append("".join(p.itertext()))
    return "\n".join(parts)


def _cell(c):
    formula = c.get(T + "formula")
    vt = c.get(O + "value-type")
    if vt in ("float", "percentage", "currency"):
        return ["n", c.get(O + "value"), formula]
    if vt == "string":
        return ["s", _text(c), formula]
    if vt in ("date", "time"):
        return ["d", c.get(O + "date-value") or c.get(O + "time-value"), formula]
    if vt == "boolean":
        return ["s", c.get(O + "boolean-value"), formula]
    if formula is not None:
        m = _HYPER.match(formula)
        if m:
            lit = m.group(4).strip()
            if lit.startswith('"') and lit.endswith('"'):
                return ["s", lit[1:-1], formula]
            return ["n", lit, formula]
        return ["f", None, formula]
    txt = _text(c)
    if txt:
        return ["s", txt, None]
    return None


def hyperlink_target(formula):
    """(sheet name, 1-based row) a HYPERLINK formula written by rp2 leads to, or None"""
    if not formula:
        return None
    m = _HYPER.match(formula)
    if not m:
        return None
    return m.group(1), int(m.group(2))


def read_ods(path):
    with zipfile.ZipFile(path) as z:
        root = ET.fromstring(z.read("content.xml"))
    sheets = {}
    order = []
    for tbl in root.iter(T + "table"):
        name = tbl.get(T + "name")
        rows = []
        for r in tbl.iter(T + "table-row"):
            rep = int(r.get(T + "number-rows-repeated", "1"))
            cells = []
            for c in r:
                if c.tag not in (T + "table-cell", T + "covered-table-cell"):
                    continue
                crep = int(c.get(T + "number-columns-repeated", "1"))
                v = _cell(c)
                if v is None and crep > MAX_COLS:
                    crep = 1
                for _ in range(min(crep, MAX_COLS)):
                    if len(cells) < MAX_COLS:
                        cells.append(v)
            while cells and cells[-1] is None:
                cells.pop()
            if not cells and rep > 50:
                rep = 1
            for _ in range(min(rep, MAX_ROWS)):
                if len(rows) < MAX_ROWS:
                    rows.append(list(cells))
        while rows and not rows[-1]:
            rows.pop()
        sheets[name] = rows
        order.append(name)
    return {"sheets": sheets, "order": order}


def read_reports(outdir, files):
    res = {}
    for f in files:
        if f.endswith(".ods"):
            try:
                res[f] = read_ods(os.path.join(outdir, f))
            except Exception as exc:  # pylint: disable=broad-except
                res[f] = {"error": f"{type(exc).__name__}: {str(exc)[:200]}"}
    return res
