"""Driving TLC: batch trace validation (sharded, one worker per shard so output stays ordered),
model checking with coverage, simulation; parsing of counts and of PrintT output."""
import json
import os
import re
import subprocess
from concurrent.futures import ThreadPoolExecutor

from . import common

_JAVA = ["java", "-XX:+UseParallelGC"]
_RUNS = 0


def _tlc_cmd(spec, cfg, metadir, workers, extra=(), heap="2g"):
    return _JAVA + [f"-Djava.io.tmpdir={common.scratch()}", f"-Xmx{heap}", "-cp", common.TLA_CP, "tlc2.TLC", "-workers", str(workers), "-metadir", metadir,
                    "-noGenerateSpecTE", "-config", cfg] + list(extra) + [spec]


def run_tlc(spec, cfg, workers=1, env=None, extra=(), timeout=3600, heap="2g", tag="tlc"):
    """run TLC on /verif/spec/<spec> with <cfg> (path); returns (returncode, stdout)"""
    global _RUNS
    _RUNS += 1
    metadir = os.path.join(common.scratch(), f"meta_{tag}_{os.getpid()}_{_RUNS}_{abs(hash((spec, cfg, tag))) % 10**8}")
    os.makedirs(metadir, exist_ok=True)
    e = dict(os.environ)
    e.pop("JAVA_TOOL_OPTIONS", None)
    if env:
        e.update(env)
    cmd = _tlc_cmd(os.path.join(common.SPEC, spec), cfg, metadir, workers, extra, heap)
    try:
        p = subprocess.run(cmd, cwd=common.SPEC, env=e, capture_output=True, text=True, timeout=timeout, check=False)
    except subprocess.TimeoutExpired as exc:
        raise common.MachineryError(f"TLC timed out after {timeout}s on {spec} {cfg}") from exc
    finally:
        subprocess.run(["rm", "-rf", metadir], check=False)
    return p.returncode, p.stdout + p.stderr


_STATS = re.compile(r"(\d+) states generated, (\d+) distinct states found")
_VERDICT = re.compile(r'^"V\|(\d+)\|(.*)"$')


def parse_stats(out):
    """(generated = transitions explored, distinct states) from TLC's final line"""
    m = None
    for m in _STATS.finditer(out):
        pass
    if m is None:
        return 0, 0
    return int(m.group(1)), int(m.group(2))


def tlc_failed(rc, out):
    """TLC reports errors of the specification/tooling (not property verdicts) by a non-zero exit"""
    return rc != 0 or "Error:" in out


def _validate_shard(args):
    spec, cfg, path, idx = args
    rc, out = run_tlc(spec, cfg, workers=1, env={"TRACE_FILE": path}, tag=f"shard{idx}", heap="3g")
    verdicts = {}
    for line in out.splitlines():
        m = _VERDICT.match(line.strip())
        if m:
            body = json.loads(m.group(2).replace('\\"', '"'))
            verdicts[int(m.group(1))] = [(c, int(l)) for c, l in body]
    gen, dist = parse_stats(out)
    return rc, out, verdicts, gen, dist


def validate_traces(traces, spec="Trace_Ledger.tla", cfg=None, shards=None):
    """Validate a list of traces with TLC.  Returns (verdicts, states, transitions) where
    verdicts[i] is the list of (clause, line) that failed for traces[i] (empty: accepted)."""
    if cfg is None:
        cfg = os.path.join(common.SPEC, spec.replace(".tla", ".cfg"))
    if not traces:
        return [], 0, 0
    # at most 16 shards for small batches, and never more than 3000 traces per shard (one TLC process reads a shard's JSON at once)
    shards = shards or max(min(common.NCPU, max(1, len(traces) // 50)), (len(traces) + 2999) // 3000)
    per = (len(traces) + shards - 1) // shards
    jobs = []
    offsets = []
    for s in range(shards):
        chunk = traces[s * per:(s + 1) * per]
        if not chunk:
            continue
        path = os.path.join(common.scratch(), f"traces_{os.getpid()}_{s}.json")
        with open(path, "w", encoding="utf-8") as f:
            json.dump([{k: v for k, v in t.items() if k != "meta"} for t in chunk], f)
        jobs.append((spec, cfg, path, s))
        offsets.append((s * per, len(chunk)))
    with ThreadPoolExecutor(max_workers=common.NCPU) as ex:
        results = list(ex.map(_validate_shard, jobs))
    verdicts = [None] * len(traces)
    states = transitions = 0
    for (off, n), (rc, out, v, gen, dist), job in zip(offsets, results, jobs):
        if tlc_failed(rc, out) or len(v) != n:
            tail = "\n".join(out.splitlines()[-40:])
            raise common.MachineryError(f"TLC failed on trace shard {job[2]} (rc={rc}, {len(v)}/{n} verdicts):\n{tail}")
        for i in range(n):
            verdicts[off + i] = v[i + 1]
        states += dist
        transitions += gen
        os.unlink(job[2])
    return verdicts, states, transitions


_COV_ACTION = re.compile(r"^<(\w+) line \d+, col \d+ to line \d+, col \d+ of module (\w+)(?: \([\d ]+\))?>: (\d+):(\d+)")


def parse_action_coverage(out):
    """{action name: (distinct states, states generated)} from a -coverage run"""
    cov = {}
    for line in out.splitlines():
        m = _COV_ACTION.match(line.strip())
        if m:
            cov[m.group(1)] = (int(m.group(3)), int(m.group(4)))
    return cov


def extract_printed(out, tag):
    """values printed by PrintT(<<tag, json-string>>) -> list of decoded JSON values"""
    res = []
    prefix = f'<<"{tag}", "'
    for line in out.splitlines():
        line = line.strip()
        if line.startswith(prefix) and line.endswith('">>'):
            body = line[len(prefix):-3]
            res.append(json.loads(body.encode("utf-8").decode("unicode_escape")))
    return res
