"""C17: results depend only on the input.  Groups of end-to-end runs on the same abstract input
(repeat, other hash seeds, dirty output directory, reordered rows and tables, asset subsets) are
recorded and TLC checks that one set of computed results explains them all (Rp2Run!GroupFails)."""
import copy
import json
import random
import sys

from . import common, gen, pool, tlc
from .run_main import ASSUMPTIONS, finish


def base_inputs(rnd, n):
    res = []
    stats = []
    for slice_, maxtx in (("Y", 4), ("B", 3), ("F", 3)):
        hs, dist, trans, _ = gen.histories(slice_, maxtx)
        full = [h for h in hs if len(h) == maxtx and len({x["t"] for x in h}) == maxtx]  # distinct timestamps
        stats.append({"slice": slice_, "maxtx": maxtx, "states": dist, "transitions": trans, "histories_with_distinct_timestamps": len(full)})
        res.append(full)
    # histories of the same shape (same symbols, same order) at different instants: laid out identically, assets then share row numbers
    shapes = {}
    for h in res[0]:
        shapes.setdefault(json.dumps([{k: v for k, v in x.items() if k != "t"} for x in h], sort_keys=True), []).append(h)
    twins = [v for v in shapes.values() if len(v) >= 2 and any(x["cls"] != "in" for x in v[0])]
    # two lots with the same price, acquired at different times, and a disposal that does not consume both: the tie must be settled by time
    tied = [h for h in res[0] if len({x["price"] for x in h if x["cls"] == "in"}) < sum(x["cls"] == "in" for x in h)
            and any(x["cls"] == "out" for x in h)]
    # lots acquired within one second (distinct only in their sub-second part) followed by a disposal: the order within the second is by time, not by row
    ha, da, ta, _ = gen.histories("A", 3)
    stats.append({"slice": "A", "maxtx": 3, "states": da, "transitions": ta, "histories_with_lots_in_one_second": 0})
    burst = []
    for h in ha:
        ins = [x for x in h if x["cls"] == "in"]
        if len(h) == 3 and len(ins) == 2 and ins[0]["t"] == ins[1]["t"] and h[2]["cls"] == "out" and h[2]["t"] > ins[0]["t"]:
            burst.append([dict(x, us=(200000 * (p + 1)) % 1000000) for p, x in enumerate(h)])
    stats[-1]["histories_with_lots_in_one_second"] = len(burst)
    feey = [h for h in res[2] if sum(x["cls"] == "in" and x["fee"] > 0 for x in h) >= 2]
    groups = []
    for i in range(n):
        if i % 8 == 4 and feey:
            groups.append({"B1": rnd.choice(feey), "B2": rnd.choice(feey), "B3": rnd.choice(feey)})      # several acquisitions with a crypto fee in one run
        elif i % 4 == 3 and burst:
            groups.append({"B1": rnd.choice(burst), "B2": rnd.choice(burst), "B3": rnd.choice(res[1])})
        elif i % 4 == 1 and twins:
            a, b = rnd.sample(rnd.choice(twins), 2)
            groups.append({"B1": a, "B2": b, "B3": rnd.choice(res[2])})
        elif i % 4 == 2 and tied:
            groups.append({"B1": rnd.choice(tied), "B2": rnd.choice(tied), "B3": rnd.choice(res[1])})
        else:
            groups.append({"B1": rnd.choice(res[0]), "B2": rnd.choice(res[1]), "B3": rnd.choice(res[2])})
    # a from-date inside a year, the later asset's taxable events of that year all before it, the earlier asset with one on or after it: what
    # the shared sheets say about the later asset (its Summary lines and their links) must not depend on the earlier asset being processed
    from .ledger import day_of  # pylint: disable=import-outside-toplevel
    from .rp2api import BASE_DATE  # pylint: disable=import-outside-toplevel
    from datetime import timedelta  # pylint: disable=import-outside-toplevel

    def taxable_days(h):
        d = {}
        for x in h:
            if x["cls"] == "out" or (x["cls"] == "intra" and x["fee"] > 0) or x["type"] in ("interest", "airdrop", "hardfork", "income", "mining", "staking", "wages"):
                d.setdefault((BASE_DATE + timedelta(days=day_of(x))).year, []).append(day_of(x))
        return d
    fromday = {}
    tries = 0
    while len(fromday) < max(2, n // 4) and tries < 20000:
        tries += 1
        a, b = rnd.choice(res[0]), rnd.choice(res[0])
        ta, tb = taxable_days(a), taxable_days(b)
        ys = [y for y in tb if y in ta and max(ta[y]) > max(tb[y])]
        if ys:
            y = rnd.choice(ys)
            fromday[len(groups)] = rnd.randint(max(tb[y]) + 1, max(ta[y]))
            groups.append({"B1": a, "B2": b, "B3": rnd.choice(res[1])})
    return groups, stats, fromday


def run(tier):
    prop = "C17"
    timer = common.Timer()
    rnd = random.Random(common.seed() * 7919 + 17)
    q = tier == "quick"
    groups, genstats, fromday = base_inputs(rnd, 12 if q else 80)
    jobs, index = [], []
    for gi, assets in enumerate(groups):
        country = ["us", "generic", "us", "generic", "jp", "ie", "generic", "us"][gi % 8] if gi % 16 != 15 else "es"
        method = rnd.choice(["fifo", "lifo", "hifo", "lofo"]) if country in ("us", "generic") else None
        if gi % 4 == 3 and country in ("us", "generic"):
            method = ["lifo", "hifo", "lofo", "fifo"][(gi // 4) % 4]
        if gi % 4 == 2 and country in ("us", "generic"):
            method = ["hifo", "lofo"][(gi // 4) % 2]       # (equal prices: the sort key's tie-breakers decide)
        base = {"kind": "cli", "country": country, "args": {"method": method, "lang": "en" if country == "jp" else None, "from": None, "to": None, "neg": False},
                "assets": assets, "conc": {"U": "0.5", "P": "10", "sheet": {}}, "sched": None, "mode": "fork", "observe": ["computed"]}
        base["args"]["from"] = fromday.get(gi)
        variants = [("base", True, base), ("repeat", True, copy.deepcopy(base))]
        # (seeds 2, 3 and 7 iterate the set {"B1", "B2", "B3"} in three different orders, all different from seed 0 under which the base run is made)
        for seed in ([2, 3, 7] if q else [1, 2, 3, 7, 12345, 4294967295]):
            v = copy.deepcopy(base)
            v.update(mode="exec", hashseed=seed)
            variants.append(("hashseed", True, v))
        v = copy.deepcopy(base)
        tag = method or "fifo"
        v["pre_files"] = {"notes.txt": "foreign file\n", f"{tag}_rp2_full_report.ods": "stale, not even a zip\n", f"{tag}_open_positions.ods": "stale\n"}
        variants.append(("dirty", True, v))
        v = copy.deepcopy(base)
        v["conc"]["sheet"]["row_perm"] = {a: list(range(len(h) - 1, -1, -1)) for a, h in assets.items()}     # every table upside down
        variants.append(("rows", False, v))
        for _ in range(1 if q else 5):
            v = copy.deepcopy(base)
            v["conc"]["sheet"]["row_perm"] = {a: rnd.sample(range(len(h)), len(h)) for a, h in assets.items()}
            variants.append(("rows", False, v))
        for order in ([["out", "intra", "in"], ["intra", "in", "out"]] if q else [["in", "intra", "out"], ["out", "in", "intra"], ["out", "intra", "in"], ["intra", "in", "out"], ["intra", "out", "in"]]):
            v = copy.deepcopy(base)
            v["conc"]["sheet"]["order"] = order
            v["conc"]["sheet"]["blanks"] = [rnd.randrange(3) for _ in range(4)]
            variants.append(("tables", False, v))
        for a in sorted(assets):
            v = copy.deepcopy(base)
            v["args"]["asset"] = a
            variants.append(("subset", False, v))
        v = copy.deepcopy(base)
        v["assets"] = {a: h for a, h in assets.items() if a != "B2"}
        variants.append(("subset", False, v))
        for kind, same, job in variants:
            index.append((gi, kind, same))
            jobs.append(job)
    results = pool.run_jobs(jobs, chunksize=1)
    print(f"[{timer.s():.0f}s] {len(results)} end-to-end runs in {len(groups)} groups", file=sys.stderr)

    def proj(res):
        r = res["res"]
        # per asset: digest of its own sheets of the full report ("<asset> In-Out", "<asset> Tax")
        own = {}
        for f, v in r.get("odsinfo", {}).items():
            if f.endswith("_rp2_full_report.ods"):
                for a in (r.get("computed") or {}):
                    own[a] = "|".join(d for n, d in sorted(v.get("sheets", {}).items()) if n.startswith(a + " ") or n.endswith(" " + a) or f"_{a} " in n or n.startswith(f"__test_{a} "))
                    own[a] += "|lines:" + v.get("asset_lines", {}).get(a, "")      # what the shared sheets (Summary) say about this asset
        return {"exit": r["exit"], "computed": r.get("computed") or {}, "digests": {f: v["digest"] for f, v in sorted(r.get("odsinfo", {}).items())}, "own_sheets": own}

    traces = []
    for gi in range(len(groups)):
        mine = [(k, s, proj(r)) for (g, k, s), r in zip(index, results) if g == gi]
        base = mine[0][2]
        variants = [dict(v, kind=k, same_bytes=s) for k, s, v in mine[1:]]
        traces.append({"kind": "group", "g": {"base": base, "variants": variants}, "meta": {"tag": f"group{gi}", "errors": [r["res"]["errors"][:2] for (g, _k, _s), r in zip(index, results) if g == gi]}})
    controls = []
    for i, t in enumerate(traces[:6]):
        m = copy.deepcopy(t)
        vs = m["g"]["variants"]
        kind = ["repeat", "hashseed", "rows", "tables", "subset", "dirty"][i % 6]
        v = [x for x in vs if x["kind"] == kind][0]
        if i % 2 == 0 or not v["digests"]:
            a = sorted(v["computed"])[0]
            if v["computed"][a]["fr"]:
                v["computed"][a]["fr"][0][2] += 1
            else:
                v["computed"][a]["bal"][0][4] += 1
        else:
            f = sorted(v["digests"])[0]
            v["digests"][f] = "0" * 16
            v["same_bytes"] = True
        controls.append((i, m))
    verdicts, st, tr = tlc.validate_traces(traces + [c for _, c in controls], spec="Trace_Run.tla", shards=min(8, len(traces)))
    cverd, verdicts = verdicts[len(traces):], verdicts[:len(traces)]
    states = sum(g["states"] for g in genstats) + st
    transitions = sum(g["transitions"] for g in genstats) + tr
    rule = ("one evaluation = one end-to-end run; a group = one generated three-asset input (distinct timestamps) run as is, repeated, under other PYTHONHASHSEEDs (new interpreter), into an output "
            "directory holding foreign and stale files, with rows permuted inside tables, tables permuted inside sheets, and with asset subsets (-a, fewer sheets); the normalised ComputedData of every "
            "asset (transaction identity = position in the abstract history, never row numbers) and, for byte-identical inputs, the digest of content.xml of every report must agree; non-trivial = a group")
    return finish(prop, tier, timer, traces, verdicts, controls, cverd, states, transitions, [], {"rule": rule, "evaluations": len(results), "generation": genstats, "groups": len(groups)}, [], [])
