"""Worker side of the ledger pipeline: concretise an abstract history, run the real rp2 on it,
observe the result and project it onto the lattice of the specification (alpha).

A job is a dict
  h     abstract history: list of transaction dicts with the fields of spec/Rp2Ledger.tla
  c     configuration: country, ltcg, sched [[year, method], ...], neg (allow negative balances)
  conc  concretisation: U, P (decimal strings), rows (row id per position), mode "api" | "ods", ...
  runs  list of {k, from, to, neg}: which real runs to perform on the history
and the answer is a trace for spec/Trace_Ledger.tla.  No accounting logic lives here: the harness
builds inputs, calls rp2, and converts what rp2 reports to integers.
"""
import math
import os
import re
import sys
from datetime import date, datetime, timedelta, timezone
from decimal import Decimal
from fractions import Fraction

from . import common

BASE = datetime(2019, 1, 1, tzinfo=timezone.utc)
BASE_DATE = date(2019, 1, 1)
ASSET = "B1"
EXCHANGES = {1: "Exa", 2: "Exb", 3: "Exc"}
HOLDERS = {1: "Hoa", 2: "Hob"}
TOL = Fraction(1, 10**15)

_INI = """[general]
assets = B1, B2, B3
exchanges = Exa, Exb, Exc
holders = Hoa, Hob

[in_header]
timestamp = 0
asset = 6
exchange = 1
holder = 5
transaction_type = 2
spot_price = 8
crypto_in = 7
crypto_fee = 9
fiat_in_no_fee = 10
fiat_in_with_fee = 11
fiat_fee = 12
unique_id = 13
notes = 14

[out_header]
timestamp = 0
asset = 6
exchange = 1
holder = 5
transaction_type = 2
spot_price = 8
crypto_out_no_fee = 7
crypto_fee = 9
crypto_out_with_fee = 10
fiat_out_no_fee = 11
fiat_fee = 12
unique_id = 13
notes = 14

[intra_header]
timestamp = 0
asset = 6
from_exchange = 1
from_holder = 2
to_exchange = 3
to_holder = 5
spot_price = 8
crypto_sent = 7
crypto_received = 10
unique_id = 12
notes = 13
"""

_state = {}


def worker_init(scratch_root):
    """Run once per worker process: private cwd (rp2.logger creates ./log at import), quiet logger."""
    wdir = os.path.join(scratch_root, f"w{os.getpid()}")
    os.makedirs(wdir, exist_ok=True)
    os.chdir(wdir)
    src = os.path.join(common.REPO, "src")
    if src not in sys.path:
        sys.path.insert(0, src)
    sys.dont_write_bytecode = True
    import logging

    from rp2.logger import LOGGER  # noqa: F401  pylint: disable=import-outside-toplevel

    for h in logging.getLogger("rp2").handlers:
        h.setLevel(logging.CRITICAL)
    ini = os.path.join(wdir, "verif.ini")
    with open(ini, "w", encoding="utf-8") as f:
        f.write(_INI)
    _state["ini"] = ini
    _state["wdir"] = wdir


def ts_string(t, off, us=0):
    dt = (BASE + timedelta(seconds=t, microseconds=us)).astimezone(timezone(timedelta(seconds=off)))
    return dt.isoformat(sep=" ")


def day_to_date(d):
    from rp2.configuration import MAX_DATE, MIN_DATE  # pylint: disable=import-outside-toplevel

    if d <= common.MIN_DAY:
        return MIN_DATE
    if d >= common.MAX_DAY:
        return MAX_DATE
    return BASE_DATE + timedelta(days=d)


def acct_names(a):
    return EXCHANGES[a // 10], HOLDERS[a % 10]


def acct_code(exchange, holder):
    e = [k for k, v in EXCHANGES.items() if v == exchange][0]
    h = [k for k, v in HOLDERS.items() if v == holder][0]
    return 10 * e + h


def lcm_q(h):
    """Q: a common multiple of every amount that can be a denominator (event totals, lot amounts)."""
    q = 1
    for x in h:
        for d in (x["amt"], x["amt"] + x["fee"], x["fee"]):
            if d > 0:
                q = q * d // math.gcd(q, d)
    return q


def country_of(c):
    # pylint: disable=import-outside-toplevel
    name = c["country"]
    if name == "us":
        from rp2.plugin.country.us import US

        return US()
    if name == "jp":
        from rp2.plugin.country.jp import JP

        return JP()
    if name == "es":
        from rp2.plugin.country.es import ES

        return ES()
    if name == "ie":
        from rp2.plugin.country.ie import IE

        return IE()
    os.environ["CURRENCY_CODE"] = "usd"
    os.environ["LONG_TERM_CAPITAL_GAINS"] = str(c["ltcg"])
    from rp2.plugin.country.generic import Generic

    return Generic()


class Alpha:
    """Abstraction of real figures to lattice integers; remembers whether every figure was exact."""

    def __init__(self, U, P, Q):
        self.U = Fraction(U)
        self.P = Fraction(P)
        self.Q = Q
        self.exact = True
        self.overflow = False
        self.worst = Fraction(0)

    def _int(self, v):
        n = round(v)
        err = abs(v - n)
        tol = TOL * max(1, abs(n))
        if err > tol:
            self.exact = False
        if err > self.worst:
            self.worst = err
        if abs(n) > common.INT_MAX // 64:
            self.overflow = True
        return int(n)

    def amt(self, x):
        return self._int(Fraction(x) / self.U)

    def money(self, x):
        return self._int(Fraction(x) * self.Q / (self.U * self.P))

    def ratio(self, x):
        """fiat per coin, as an exact small rational of money units per crypto unit"""
        v = Fraction(x) * self.Q / self.P
        r = v.limit_denominator(10**6)
        if abs(v - r) > TOL * max(1, abs(r)):
            self.exact = False
        if abs(r.numerator) > common.INT_MAX // 4096:
            self.overflow = True
        return [r.numerator, r.denominator]


def build_objects(job, k, cfg):
    """real transaction objects for the first k transactions of the abstract history (API mode)"""
    # pylint: disable=import-outside-toplevel
    from rp2.in_transaction import InTransaction
    from rp2.intra_transaction import IntraTransaction
    from rp2.out_transaction import OutTransaction
    from rp2.rp2_decimal import RP2Decimal

    h = job["h"]
    conc = job["conc"]
    U = Decimal(conc["U"])
    P = Decimal(conc["P"])
    rows = conc["rows"]

    def dec(v):
        return RP2Decimal(str(v))

    objs = []
    for pos in range(k):
        x = h[pos]
        ts = ts_string(x["t"], x["off"])
        row = rows[pos]
        uid = f"t{pos + 1}"
        price = dec(P * x["price"])
        if x["cls"] == "in":
            if x["fee"] > 0:
                raise common.MachineryError("acquisition with crypto fee needs ods mode")
            e, ho = acct_names(x["a1"])
            o = InTransaction(
                cfg, ts, ASSET, e, ho, x["type"].upper(), price, dec(U * x["amt"]),
                crypto_fee=None,
                fiat_in_no_fee=dec(U * P * x["vin"]) if x["vin"] >= 0 else None,
                fiat_in_with_fee=dec(U * P * x["vwf"]) if x["vwf"] >= 0 else None,
                fiat_fee=dec(U * P * x["ffee"]) if x["ffee"] > 0 else None,
                row=row, unique_id=uid,
            )
        elif x["cls"] == "out":
            e, ho = acct_names(x["a1"])
            o = OutTransaction(
                cfg, ts, ASSET, e, ho, x["type"].upper(), price, dec(U * x["amt"]), dec(U * x["fee"]),
                crypto_out_with_fee=None,
                fiat_out_no_fee=dec(U * P * x["vout"]) if x["vout"] >= 0 else None,
                fiat_fee=dec(U * P * x["vfee"]) if x["vfee"] >= 0 else None,
                row=row, unique_id=uid,
            )
        else:
            e1, h1 = acct_names(x["a1"])
            e2, h2 = acct_names(x["a2"])
            o = IntraTransaction(
                cfg, ts, ASSET, e1, h1, e2, h2, price, dec(U * x["amt"]), dec(U * (x["amt"] - x["fee"])),
                row=row, unique_id=uid,
            )
        objs.append((row, x["cls"], o))
    return objs


def make_engine(sched):
    # pylint: disable=import-outside-toplevel
    from importlib import import_module

    from prezzemolo.avl_tree import AVLTree
    from rp2.accounting_engine import AccountingEngine

    tree = AVLTree()
    for year, method in sched:
        tree.insert_node(year, import_module(f"rp2.plugin.accounting_method.{method}").AccountingMethod())
    return AccountingEngine(tree)


_NEG_RE = re.compile(r'balance of account "([^"]*)" \(holder "([^"]*)"\) went negative')


def classify_error(exc):
    msg = str(exc)
    if "Total in-transaction crypto value < total taxable crypto value" in msg:
        return "lots", 0
    m = _NEG_RE.search(msg)
    if m:
        try:
            return "balance", acct_code(m.group(1), m.group(2))
        except (IndexError, KeyError):
            return "balance", 0
    return "other", 0


def run_once(job, run):
    """one real run; returns (status, acct, message, computed_data | None, idmap)"""
    # pylint: disable=import-outside-toplevel
    from rp2.configuration import Configuration
    from rp2.input_data import InputData
    from rp2.tax_engine import compute_tax
    from rp2.transaction_set import TransactionSet

    c = job["c"]
    country = country_of(c)
    cfg = Configuration(_state["ini"], country, day_to_date(run["from"]), day_to_date(run["to"]), bool(run["neg"]))
    if job["conc"].get("mode", "api") == "ods":
        from . import odsio

        return odsio.run_ods(job, run, cfg, _state)
    objs = build_objects(job, run["k"], cfg)
    sets = {"in": TransactionSet(cfg, "IN", ASSET), "out": TransactionSet(cfg, "OUT", ASSET), "intra": TransactionSet(cfg, "INTRA", ASSET)}
    for _row, cls, o in sorted(objs, key=lambda r: r[0]):
        sets[cls].add_entry(o)
    idmap = {str(row): pos + 1 for pos, (row, _cls, _o) in enumerate(objs)}
    input_data = InputData(ASSET, sets["in"], sets["out"], sets["intra"], cfg.from_date, cfg.to_date)
    engine = make_engine(c["sched"])
    try:
        cd = compute_tax(cfg, engine, input_data)
    except Exception as exc:  # pylint: disable=broad-except
        status, acct = classify_error(exc)
        return status, acct, f"{type(exc).__name__}: {str(exc)[:300]}", None, idmap
    return "ok", 0, "", cd, idmap


def observe(cd, idmap, al):
    """projection of a ComputedData onto the specification's views"""

    def tid(tx):
        return idmap[tx.internal_id]

    gls = cd.gain_loss_set
    fr = []
    lab = []
    for gl in gls:
        lot = gl.acquired_lot
        fr.append([
            tid(gl.taxable_event), tid(lot) if lot is not None else 0, al.amt(gl.crypto_amount),
            al.money(gl.taxable_event_fiat_amount_with_fee_fraction), al.money(gl.fiat_cost_basis), al.money(gl.fiat_gain),
            bool(gl.is_long_term_capital_gains()),
        ])
        try:
            counts = [gls.get_taxable_event_fraction(gl) + 1, gls.get_taxable_event_number_of_fractions(gl.taxable_event),
                      gls.get_acquired_lot_fraction(gl) + 1 if lot is not None else 0,
                      gls.get_acquired_lot_number_of_fractions(lot) if lot is not None else 0]
        except (KeyError, ValueError):
            counts = [-1, -1, -1, -1]  # rp2 shows a fraction for which it has no k/n label: an observation, judged by the specification
        lab.append([tid(gl.taxable_event), tid(lot) if lot is not None else 0] + counts)
    yr = [
        [y.year, y.transaction_type.value, bool(y.is_long_term_capital_gains), al.amt(y.crypto_amount), al.money(y.fiat_amount),
         al.money(y.fiat_cost_basis), al.money(y.fiat_gain_loss)]
        for y in cd.yearly_gain_loss_list
    ]
    bal = [
        [acct_code(b.exchange, b.holder), al.amt(b.acquired_balance), al.amt(b.sent_balance), al.amt(b.received_balance), al.amt(b.final_balance)]
        for b in cd.balance_set
    ]
    return {
        "fr": fr, "lab": lab, "yr": yr, "bal": bal,
        "ins": [tid(t) for t in cd.in_transaction_set],
        "outs": [tid(t) for t in cd.out_transaction_set],
        "intras": [tid(t) for t in cd.intra_transaction_set],
        "tev": [tid(t) for t in cd.taxable_event_set],
        "ppu": al.ratio(cd.price_per_unit),
        # the part of every lot shown that rp2 counts as sold (its percentage times the lot amount)
        "sold": [[tid(t), al.amt(cd.get_in_lot_sold_percentage(t) * t.crypto_in)] for t in cd.in_transaction_set],
    }


_EMPTY = {"fr": [], "lab": [], "yr": [], "bal": [], "ins": [], "outs": [], "intras": [], "tev": [], "ppu": [0, 1], "sold": []}


def do_job(job):
    """perform all runs of a job and assemble the trace"""
    try:
        if job.get("kind") == "sheet":
            from . import odsio

            return odsio.do_sheet_job(job, _state)
        if job.get("kind") == "cli":
            from . import cli

            return cli.do_cli_job(job, _state)
        return _do_job(job)
    except common.MachineryError as exc:
        return {"error": str(exc), "job": job}
    except Exception as exc:  # pylint: disable=broad-except
        import traceback

        return {"error": f"{type(exc).__name__}: {exc}\n{traceback.format_exc()}", "job": job}


def _do_job(job):
    h = job["h"]
    c = job["c"]
    conc = job["conc"]
    Q = lcm_q(h)
    U = Fraction(conc["U"])
    results = []
    for run in job["runs"]:
        if not any(x["cls"] == "in" for x in h[:run["k"]]):
            continue  # rp2 takes no input without an acquisition (that rejection belongs to C12)
        al = Alpha(conc["U"], conc["P"], Q)
        status, acct, msg, cd, idmap = run_once(job, run)
        obs = dict(_EMPTY)
        if cd is not None:
            try:
                obs = observe(cd, idmap, al)
            except Exception as exc:  # pylint: disable=broad-except
                # the result object cannot be read consistently (e.g. a shown transaction unknown to the run): the run did not deliver
                status, msg = "other", f"result not readable: {type(exc).__name__}: {str(exc)[:200]}"
        results.append((run, status, acct, msg, obs, al))
    # reference run: the largest successful prefix run without window (fractions do not depend on -n)
    m = 0
    ref = None
    for r in results:
        run, status = r[0], r[1]
        if status == "ok" and run["from"] <= common.MIN_DAY and run["to"] >= common.MAX_DAY and run["k"] > m:
            m, ref = run["k"], r
    lines = []
    overflow = False
    if ref is not None:
        for f in ref[4]["fr"]:
            lines.append({"a": "Take", "ev": f[0], "lot": f[1], "amt": f[2], "proc": f[3], "cost": f[4], "gain": f[5], "long": f[6], "ex": ref[5].exact})
        lines.append({"a": "Done"})
    msgs = []
    for run, status, acct, msg, obs, al in results:
        ln = {"a": "Obs", "k": run["k"], "from": run["from"], "to": run["to"], "neg": bool(run["neg"]), "status": status, "acct": acct, "ex": al.exact}
        ln.update(obs)
        lines.append(ln)
        overflow = overflow or al.overflow
        msgs.append(msg)
    # tolerated overdraft in lattice units: the run must be rejected when a balance is below -1e-10
    band = int(Fraction(1, 10**10) / U)
    tc = {"Q": Q, "sched": c["sched"], "country": c["country"], "ltcg": c.get("ltcg", 0), "band": band}
    return {"c": tc, "h": h, "m": m, "lines": lines, "meta": {"conc": conc, "runs": [r[0] for r in results], "msgs": msgs, "overflow": overflow, "neg": c["neg"], "tag": job.get("tag", ""), "engine_expected": job.get("engine_expected")}}
