"""Spec -> code direction: histories are enumerated / sampled by TLC from spec/Gen_Hist.tla
(and model-checked in spec/MC_Ledger.tla); this module runs TLC and collects what it prints."""
import json
import os

from . import common, tlc

_FIELDS = ("cls", "type", "t", "off", "a1", "a2", "amt", "fee", "price", "ffee", "vin", "vwf", "vout", "vfee", "par")


def _write_cfg(name, text):
    path = os.path.join(common.scratch(), name)
    with open(path, "w", encoding="utf-8") as f:
        f.write(text)
    return path


def _parse_hist(out):
    seen = set()
    res = []
    for line in out.splitlines():
        line = line.strip()
        if line.startswith('"H|') and line.endswith('"'):
            body = line[3:-1].replace('\\"', '"')
            if body in seen:
                continue
            seen.add(body)
            h = json.loads(body)
            res.append([{k: x[k] for k in _FIELDS} for x in h])
    return res


def histories(slice_, maxtx, mode="valid", simulate=None, depth=None):
    """All histories of a slice up to maxtx transactions (exhaustive), or, with simulate=N,
    the distinct histories met on N random behaviours of length `depth`.
    Returns (histories, distinct states, transitions, exhaustive?)."""
    cfg = _write_cfg(
        f"gen_{slice_}_{maxtx}_{mode}_{simulate}.cfg",
        f'CONSTANTS Slice = "{slice_}" MaxTx = {maxtx} Mode = "{mode}" EmitFrom = {maxtx if simulate else 1}\nINIT GInit\nNEXT GNext\nINVARIANT Emit\nCHECK_DEADLOCK FALSE\n',
    )
    extra = []
    workers = common.NCPU
    if simulate:
        extra = ["-simulate", f"num={simulate}", "-depth", str((depth or maxtx) + 1), "-seed", str(common.seed() + 1)]
        workers = 1
    rc, out = tlc.run_tlc("Gen_Hist.tla", cfg, workers=workers, extra=extra, tag=f"gen{slice_}", heap="4g", timeout=3000)
    hs = _parse_hist(out)
    if tlc.tlc_failed(rc, out) or not hs:
        tail = "\n".join(l for l in out.splitlines() if not l.startswith('"H|'))[-3000:]
        raise common.MachineryError(f"history generation failed (slice {slice_}, rc={rc}):\n{tail}")
    gen, dist = tlc.parse_stats(out)
    if simulate:
        gen = dist = len(hs)
    return hs, dist, gen, not simulate


def model_check_ledger(slice_, maxtx, mode, schedset, timeout=3000):
    """TLC on MC_Ledger: the design over every history of the slice.  Returns a dict with counts;
    raises MachineryError on tool failure.  A violated invariant is returned as 'violation'."""
    cfg = _write_cfg(
        f"mc_{slice_}_{maxtx}_{mode}_{schedset}.cfg",
        f'CONSTANTS Slice = "{slice_}" MaxTx = {maxtx} Mode = "{mode}" EmitFrom = 1 SchedSet = "{schedset}"\n'
        "INIT Init\nNEXT Next\nINVARIANT SelfConsistent\nINVARIANT Conservation\nINVARIANT StuckIffUncovered\n"
        "INVARIANT Reassembly\nINVARIANT Reconcile\nINVARIANT PassedOverOnlyIfEmpty\nPROPERTY AppendOnly\nCHECK_DEADLOCK FALSE\n",
    )
    rc, out = tlc.run_tlc("MC_Ledger.tla", cfg, workers=common.NCPU, extra=["-coverage", "1"], tag=f"mc{slice_}", heap="8g", timeout=timeout)
    gen, dist = tlc.parse_stats(out)
    res = {"module": "MC_Ledger", "slice": slice_, "maxtx": maxtx, "mode": mode, "schedset": schedset, "states": dist, "transitions": gen}
    if "is violated" in out:
        lines = [l for l in out.splitlines() if "is violated" in l]
        res["violation"] = lines[0]
        body = out.split("The coverage statistics")[0]
        res["counterexample"] = "\n".join(l for l in body.splitlines() if "CostModel" not in l)[-6000:]
        return res
    if tlc.tlc_failed(rc, out.replace("CostModel lookup failed", "")) or dist == 0:
        tail = "\n".join(l for l in out.splitlines() if "CostModel" not in l)[-3000:]
        raise common.MachineryError(f"model checking MC_Ledger failed (rc={rc}):\n{tail}")
    cov = tlc.parse_action_coverage(out)
    res["action_coverage"] = {k: v[1] for k, v in cov.items()}
    need = ("Build", "Start", "Next", "Take", "Finish") if maxtx >= 3 else ("Build", "Start", "Next", "Finish")  # a second lot needs 3 transactions
    never = [a for a in need if cov.get(a, (0, 0))[1] == 0]
    if never:
        raise common.MachineryError(f"vacuity: actions never taken in MC_Ledger {slice_}/{maxtx}: {never}")
    return res
