"""Spec -> code direction: histories are enumerated / sampled by TLC from spec/Gen_Hist.tla
(and model-checked in spec/MC_Ledger.tla); this module runs TLC and collects what it prints."""
import json
import os

from . import common, tlc

_FIELDS = ("cls", "type", "t", "off", "a1", "a2", "amt", "fee", "price", "ffee", "vin", "vwf", "vout", "vfee", "par")


def _write_cfg(name, text):
    path = os.path.join(common.scratch(), name)
    with open(path, "w", encoding="utf-8") as f:
        f.write(text)
    return path


def _parse_hist(out):
    seen = set()
    res = []
    for line in out.splitlines():
        line = line.strip()
        if line.startswith('"H|') and line.endswith('"'):
            body = line[3:-1].replace('\\"', '"')
            if body in seen:
                continue
            seen.add(body)
            h = json.loads(body)
            res.append([{k: x[k] for k in _FIELDS} for x in h])
    # TLC's workers print in no particular order: a canonical order makes every later random choice a function of VERIF_SEED alone
    res.sort(key=lambda h: (len(h), json.dumps(h, sort_keys=True)))
    return res


def histories(slice_, maxtx, mode="valid", simulate=None, depth=None):
    """All histories of a slice up to maxtx transactions (exhaustive), or, with simulate=N,
    the distinct histories met on N random behaviours of length `depth`.
    Returns (histories, distinct states, transitions, exhaustive?)."""
    cfg = _write_cfg(
        f"gen_{slice_}_{maxtx}_{mode}_{simulate}.cfg",
        f'CONSTANTS Slice = "{slice_}" MaxTx = {maxtx} Mode = "{mode}" EmitFrom = {maxtx if simulate else 1}\nINIT GInit\nNEXT GNext\nINVARIANT Emit\nCHECK_DEADLOCK FALSE\n',
    )
    extra = []
    workers = common.NCPU
    if simulate:
        extra = ["-simulate", f"num={simulate}", "-depth", str((depth or maxtx) + 1), "-seed", str(common.seed() + 1)]
        workers = 1
    rc, out = tlc.run_tlc("Gen_Hist.tla", cfg, workers=workers, extra=extra, tag=f"gen{slice_}", heap="4g", timeout=3000)
    hs = _parse_hist(out)
    if tlc.tlc_failed(rc, out) or not hs:
        tail = "\n".join(l for l in out.splitlines() if not l.startswith('"H|'))[-3000:]
        raise common.MachineryError(f"history generation failed (slice {slice_}, rc={rc}):\n{tail}")
    gen, dist = tlc.parse_stats(out)
    if simulate:
        gen = dist = len(hs)
    return hs, dist, gen, not simulate


def model_check_ledger(slice_, maxtx, mode, schedset, timeout=3000):
    """TLC on MC_Ledger: the design over every history of the slice.  Returns a dict with counts;
    raises MachineryError on tool failure.  A violated invariant is returned as 'violation'."""
    cfg = _write_cfg(
        f"mc_{slice_}_{maxtx}_{mode}_{schedset}.cfg",
        f'CONSTANTS Slice = "{slice_}" MaxTx = {maxtx} Mode = "{mode}" EmitFrom = 1 SchedSet = "{schedset}"\n'
        "INIT Init\nNEXT Next\nINVARIANT SelfConsistent\nINVARIANT Conservation\nINVARIANT StuckIffUncovered\n"
        "INVARIANT Reassembly\nINVARIANT Reconcile\nINVARIANT PassedOverOnlyIfEmpty\nPROPERTY AppendOnly\nCHECK_DEADLOCK FALSE\n",
    )
    rc, out = tlc.run_tlc("MC_Ledger.tla", cfg, workers=common.NCPU, extra=["-coverage", "1"], tag=f"mc{slice_}", heap="8g", timeout=timeout)
    gen, dist = tlc.parse_stats(out)
    res = {"module": "MC_Ledger", "slice": slice_, "maxtx": maxtx, "mode": mode, "schedset": schedset, "states": dist, "transitions": gen}
    if "is violated" in out:
        lines = [l for l in out.splitlines() if "is violated" in l]
        res["violation"] = lines[0]
        body = out.split("The coverage statistics")[0]
        res["counterexample"] = "\n".join(l for l in body.splitlines() if "CostModel" not in l)[-6000:]
        return res
    if tlc.tlc_failed(rc, out.replace("CostModel lookup failed", "")) or dist == 0:
        tail = "\n".join(l for l in out.splitlines() if "CostModel" not in l)[-3000:]
        raise common.MachineryError(f"model checking MC_Ledger failed (rc={rc}):\n{tail}")
    cov = tlc.parse_action_coverage(out)
    res["action_coverage"] = {k: v[1] for k, v in cov.items()}
    # (a disposal spanning two lots needs 3 transactions, and an alphabet in which a disposal can exceed a lot: not T and C, whose disposals are of one unit)
    need = ("Build", "Start", "Next", "Take", "Finish") if maxtx >= 3 and slice_ not in ("T", "C") else ("Build", "Start", "Next", "Finish")
    never = [a for a in need if cov.get(a, (0, 0))[1] == 0]
    if never:
        raise common.MachineryError(f"vacuity: actions never taken in MC_Ledger {slice_}/{maxtx}: {never}")
    return res


def model_check_engine(maxtx, scheds, timeout=3000):
    """TLC on Rp2Engine (the matching algorithm as implemented): invariants on its output over every valid history of the bound, the
    sensitivity control (the repaired defect must be refuted), and the finished runs it printed (history, schedule, output)."""
    invs = "INVARIANT PickInv\nINVARIANT NoSpuriousFail\nINVARIANT EventsCovered\nINVARIANT HeapComplete\nPROPERTY AppendOnly\n"
    cfg = _write_cfg(f"eng_{maxtx}_{scheds}.cfg", f'CONSTANTS MaxTx = {maxtx} Repush = "always" Scheds = "{scheds}" YearCheck = "instant_or_year"\nINIT Init\nNEXT Next\n{invs}CHECK_DEADLOCK FALSE\n')
    rc, out = tlc.run_tlc("Rp2Engine.tla", cfg, workers=common.NCPU, tag="engine", heap="8g", timeout=timeout)   # (no -coverage: its accounting of the recursive seeks exhausts the heap)
    # the finished runs are printed by a second pass without coverage accounting (one bound lower in thorough: the output is large)
    emit_tx = min(maxtx, 3) if scheds == "pairs" else maxtx
    cfg_e = _write_cfg(f"eng_{maxtx}_{scheds}_emit.cfg", f'CONSTANTS MaxTx = {emit_tx} Repush = "always" Scheds = "{scheds}" YearCheck = "instant_or_year"\nINIT Init\nNEXT Next\nINVARIANT Emit\nCHECK_DEADLOCK FALSE\n')
    rc_e, out_e = tlc.run_tlc("Rp2Engine.tla", cfg_e, workers=common.NCPU, tag="engineemit", heap="8g", timeout=timeout)
    runs = []
    for line in out_e.splitlines():
        s = line.strip()
        if s.startswith('"E|') and s.endswith('"'):
            runs.append(json.loads(s[3:-1].replace('\\"', '"')))
    if rc_e != 0 and not runs:
        raise common.MachineryError("Rp2Engine emission failed: " + out_e[-1500:])
    gen_, dist = tlc.parse_stats(out)
    res = {"module": "Rp2Engine", "maxtx": maxtx, "scheds": scheds, "states": dist, "transitions": gen_, "finished_runs_printed": len(runs)}
    if "is violated" in out:
        res["violation"] = [l for l in out.splitlines() if "is violated" in l][0]
        res["counterexample"] = "\n".join(l for l in out.split("The coverage statistics")[0].splitlines() if "CostModel" not in l)[-5000:]
        return res, runs
    if tlc.tlc_failed(rc, out.replace("CostModel lookup failed", "")) or dist == 0 or not runs:
        raise common.MachineryError(f"model checking Rp2Engine failed (rc={rc}):\n" + "\n".join(l for l in out.splitlines() if "CostModel" not in l)[-3000:])
    if not any(r["pc"] == "done" and len(r["out"]) >= 2 for r in runs):
        raise common.MachineryError("vacuity: Rp2Engine finished no run with several fractions")
    cfg2 = _write_cfg(f"eng_{maxtx}_ctl.cfg", f'CONSTANTS MaxTx = {max(3, maxtx)} Repush = "if_larger" Scheds = "single" YearCheck = "instant_or_year"\nINIT Init\nNEXT Next\n{invs}CHECK_DEADLOCK FALSE\n')
    _rc2, out2 = tlc.run_tlc("Rp2Engine.tla", cfg2, workers=common.NCPU, tag="enginectl", heap="8g", timeout=timeout)
    res["repaired_defect_refuted"] = "is violated" in out2
    if not res["repaired_defect_refuted"]:
        raise common.MachineryError("vacuity: Rp2Engine accepts the conditional re-push (the defect repaired by 0041f1c)")
    cfg3 = _write_cfg(f"eng_{maxtx}_ctl2.cfg", f'CONSTANTS MaxTx = 3 Repush = "always" Scheds = "pairs" YearCheck = "instant_only"\nINIT Init\nNEXT Next\n{invs}CHECK_DEADLOCK FALSE\n')
    _rc3, out3 = tlc.run_tlc("Rp2Engine.tla", cfg3, workers=common.NCPU, tag="enginectl2", heap="8g", timeout=timeout)
    res["year_change_defect_refuted"] = "is violated" in out3
    if not res["year_change_defect_refuted"]:
        raise common.MachineryError("vacuity: Rp2Engine accepts a lot carried across a change of local year at one instant (the defect repaired by f858ad6)")
    return res, runs


def prove_balances(timeout=900):
    """Apalache on spec/Ind_Balances.tla: the account ledger over unbounded amounts (balances equal flows, balances reconcile with the lots);
    the control is the transfer whose credit overwrites the debit on a same-account transfer"""
    return prove_pairing(timeout, module="Ind_Balances", what={"amounts": "unbounded integers", "accounts": 3})


def prove_pairing(timeout=900, module="Ind_Pairing", what=None):
    """Apalache on spec/Ind_Pairing.tla: the pairing loop's two running amounts over UNBOUNDED integers.  Four obligations: Init => IndInv,
    IndInv and Next => IndInv', IndInv => Safety (what C02 says about the loop), and the sensitivity control (the loop whose third branch does
    not reduce the event must break IndInv).  Returns the outcomes; a failed obligation is a machinery failure (the specification is wrong)."""
    import shutil
    import subprocess
    from concurrent.futures import ThreadPoolExecutor
    exe = shutil.which("apalache-mc")
    if exe is None:
        return {"module": module, "skipped": "apalache-mc is not on PATH"}
    obligations = [("init_implies_inv", ["--init=Init", "--next=Next", "--inv=IndInv", "--length=0"], True),
                   ("inv_is_inductive", ["--init=IndInit", "--next=Next", "--inv=IndInv", "--length=1"], True),
                   ("inv_implies_safety", ["--init=IndInit", "--next=Next", "--inv=Safety", "--length=0"], True),
                   ("broken_loop_refuted", ["--init=IndInit", "--next=NextBroken", "--inv=IndInv", "--length=1"], False)]

    def one(ob):
        name, args, want_ok = ob
        out_dir = os.path.join(common.scratch(), f"apa_{os.getpid()}_{module}_{name}")
        try:
            p = subprocess.run([exe, "check"] + args + [f"--out-dir={out_dir}", os.path.join(common.SPEC, module + ".tla")],
                               cwd=common.scratch(), capture_output=True, text=True, timeout=timeout, check=False)
        except subprocess.TimeoutExpired as exc:
            raise common.MachineryError(f"Apalache timed out on {module} {name}") from exc
        finally:
            subprocess.run(["rm", "-rf", out_dir], check=False)
        text = p.stdout + p.stderr
        ok = "The outcome is: NoError" in text
        bad = "The outcome is: Error" in text
        if not (ok or bad):
            raise common.MachineryError(f"Apalache failed on {module} {name}:\n" + text[-1500:])
        return name, ok == want_ok

    with ThreadPoolExecutor(4) as ex:
        res = dict(ex.map(one, obligations))
    failed = [n for n, good in res.items() if not good]
    if failed:
        raise common.MachineryError(f"{module}: obligations not discharged as expected: {failed}")
    return dict({"module": module, "tool": "apalache-mc", "obligations": res}, **(what or {"amounts": "unbounded integers", "events": 3, "lots": 3}))


# instants 1 and 2: noon of 30 and 31 December 2019 (UTC); instant 3: 2020-01-01T00:00:01Z, written in UTC (local year 2020, yr = 2) or at
# -05:00 (2019-12-31T19:00:01-05:00, local year 2019, yr = 1)
_ENG_T = {1: 363 * 86400 + 43200, 2: 364 * 86400 + 43200, 3: 365 * 86400 + 1}


def engine_job(run):
    """a finished run of Rp2Engine as a job for the real rp2: the same history under the same schedule"""
    h = []
    for x in run["h"]:
        cls, typ = ("out", "sell") if x["k"] == "out" else ("in", "buy" if x["k"] == "buy" else "interest")
        h.append({"cls": cls, "type": typ, "t": _ENG_T[x["t"]], "off": -18000 if (x["t"] == 3 and x["yr"] == 1) else 0, "a1": 11, "a2": 0, "amt": x["amt"], "fee": 0, "price": x["p"], "ffee": 0,
                  "vin": -1, "vwf": -1, "vout": -1, "vfee": -1, "par": 0})
    sched = [[1970, run["m1"]]] + ([[2020, run["m2"]]] if run["m2"] != run["m1"] else [])
    lots = [p + 1 for p, x in enumerate(run["h"]) if x["k"] != "out"]
    expected = [[f["ev"], lots[f["lot"] - 1] if f["lot"] else 0, f["amt"]] for f in run["out"]]
    return {"h": h, "c": {"country": "us", "ltcg": 0, "sched": sched, "neg": False}, "conc": {"U": "1", "P": "1", "rows": list(range(2, 2 + len(h))), "mode": "api"},
            "runs": [{"k": len(h), "from": common.MIN_DAY, "to": common.MAX_DAY, "neg": False}], "tag": "engine", "engine_expected": {"out": expected, "pc": run["pc"]}}
