"""Entry of the exec mode of harness.cli: a new interpreter, optionally with an audit hook installed
before anything of rp2 is imported (C18)."""
import json


def main(jpath, d, result_path):
    with open(jpath, encoding="utf-8") as f:
        job = json.load(f)
    from . import cli

    cli.child_main(job, d, result_path)
