"""Checks C11 (parsed transactions equal the spreadsheet rows for any layout) and the API-level half of
C12 (malformed input is rejected): TLC enumerates sheet structures (spec/MC_Sheet.tla) and checks the
table automaton against the documented grammar; histories from Gen_Hist are laid out under many column
layouts; every sheet is written cell by cell, read by the real parse_ods, and the result is judged by
TLC against spec/Rp2Sheet.tla (spec/Trace_Sheet.tla)."""
import copy
import json
import os
import random
import sys

from . import common, gen, odsio, pool, tlc
from .rp2api import EXCHANGES, HOLDERS

K_REAL = {"asset": "B1", "assets": ["B1", "B2", "B3"], "exchanges": list(EXCHANGES.values()), "holders": list(HOLDERS.values())}
# units with at most 11 decimals whose product (the unit of fiat columns) also has at most 11 decimals; small values, and values with
# a large integer part next to many decimals (more than 11 significant digits, which a double still carries exactly enough)
UNITS11 = [("0.00000000001", "1"), ("0.12345", "1.000007"), ("0.5", "10"), ("0.001", "0.00000001"), ("19.99999", "0.000101"), ("1", "0.00000000001"),
           ("250000.1234567", "0.0001"), ("12345.678901", "1234.5"), ("0.00000001", "43210.987")]

ASSUMPTIONS = [
    "reading/writing ODS XML is ezodf (the library rp2 itself uses); cells are written into exactly the columns the abstract sheet names",
    "numbers are lattice integers times a per-column unit with at most 11 decimals and below 1e4, so the float cell holds them exactly to 11 decimals",
    "cases the documented format leaves open (a malformed data row directly under the table keyword; an empty table given twice; zero crypto fee together with a fiat fee) are not judged",
    "negative or zero staking income is outside the generated inputs",
]


def model_check_sheet(maxrows):
    cfg = os.path.join(common.scratch(), f"mc_sheet_{maxrows}.cfg")
    with open(cfg, "w", encoding="utf-8") as f:
        f.write(f"CONSTANTS MaxRows = {maxrows}\nINIT Init\nNEXT Next\nINVARIANT AutomatonMatchesGrammar\nINVARIANT CollectedExactly\nINVARIANT Emit\nINVARIANT EmitPool\nCHECK_DEADLOCK FALSE\n")
    rc, out = tlc.run_tlc("MC_Sheet.tla", cfg, workers=common.NCPU, tag="mcsheet", heap="6g", timeout=3000)
    gen_, dist = tlc.parse_stats(out)
    res = {"module": "MC_Sheet", "maxrows": maxrows, "states": dist, "transitions": gen_}
    if "is violated" in out:
        res["violation"] = [l for l in out.splitlines() if "is violated" in l][0]
        res["counterexample"] = "\n".join(l for l in out.splitlines() if not l.startswith('"S|') and not l.startswith('"P|'))[-5000:]
        return res, [], None
    if tlc.tlc_failed(rc, out) or dist == 0:
        raise common.MachineryError("model checking MC_Sheet failed:\n" + "\n".join(l for l in out.splitlines() if not l.startswith('"S|'))[-3000:])
    seqs, poolrows = [], None
    for line in out.splitlines():
        line = line.strip()
        if line.startswith('"S|'):
            body, status = line[3:-1].rsplit("|", 1)
            seqs.append((json.loads(body.replace('\\"', '"')), status))
        elif line.startswith('"P|'):
            a, b = line[3:-1].replace('\\"', '"').split("|")
            poolrows = (json.loads(a), json.loads(b))
    if not seqs or poolrows is None:
        raise common.MachineryError("MC_Sheet printed no sequences")
    res["sequences"] = len(seqs)
    res["well_formed"] = sum(1 for _, s in seqs if s == "ok")
    seqs.sort(key=lambda x: json.dumps(x))       # (TLC's workers print in no particular order)
    return res, seqs, poolrows


def token_jobs(seqs, poolrows, rnd, limit_ok, limit_err):
    rows_of, layout = poolrows
    ok = [s for s in seqs if s[1] == "ok"]
    err = [s for s in seqs if s[1] == "error"]
    if len(ok) > limit_ok:
        ok = rnd.sample(ok, limit_ok)
    if len(err) > limit_err:
        err = rnd.sample(err, limit_err)
    jobs = []
    for toks, status in ok + err:
        rows = [copy.deepcopy(rows_of[t]) for t in toks]
        jobs.append({"kind": "sheet", "K": K_REAL, "L": layout, "rows": rows, "conc": {"U": "0.5", "P": "10"}, "tag": f"tokens:{status}", "tokens": toks})
    return jobs


def layouts_for(rnd, tier):
    """default layout, transpositions of two mapped columns, each optional column unmapped / moved far, random layouts"""
    base = odsio.default_layout()
    res = [("default", base)]
    trans = []
    for tbl in base:
        fs = list(base[tbl])
        for i in range(len(fs)):
            for j in range(i + 1, len(fs)):
                if base[tbl][fs[i]] == 0 and fs[j] not in odsio.MANDATORY[tbl]:
                    continue  # first column must hold a mandatory field
                if base[tbl][fs[j]] == 0 and fs[i] not in odsio.MANDATORY[tbl]:
                    continue
                lay = copy.deepcopy(base)
                lay[tbl][fs[i]], lay[tbl][fs[j]] = lay[tbl][fs[j]], lay[tbl][fs[i]]
                trans.append((f"swap:{tbl}:{fs[i]}:{fs[j]}", lay))
    res += trans if tier == "thorough" else rnd.sample(trans, 45)
    for tbl in base:
        for f in base[tbl]:
            if f not in odsio.MANDATORY[tbl]:
                lay = copy.deepcopy(base)
                del lay[tbl][f]
                res.append((f"unmapped:{tbl}:{f}", lay))
                lay = copy.deepcopy(base)
                lay[tbl][f] = 15 + len(f) % 3
                res.append((f"far:{tbl}:{f}", lay))
    for n in range(60 if tier == "quick" else 1500):
        res.append((f"random:{n}", odsio.random_layout(rnd)))
    return res


def fits(h, layout):
    """the layout maps every field the history needs"""
    for x in h:
        lay = layout[x["cls"]]
        need = []
        if x["cls"] == "in":
            need = [f for f, v in (("crypto_fee", x["fee"] > 0), ("fiat_fee", x["ffee"] > 0), ("fiat_in_no_fee", x["vin"] >= 0), ("fiat_in_with_fee", x["vwf"] >= 0)) if v]
        elif x["cls"] == "out":
            need = [f for f, v in (("fiat_out_no_fee", x["vout"] >= 0), ("fiat_fee", x["vfee"] >= 0)) if v]
        elif x["fee"] > 0:
            need = ["spot_price"]
        if any(f not in lay for f in need):
            return False
    return True


def content_jobs(rnd, tier):
    """histories laid out under many layouts, table orders, blank rows, row orders, decoy columns"""
    hs = []
    stats = []
    for slice_, maxtx, n in (("F", 3, 250), ("T", 3, 250), ("V", 3, 200), ("B", 3, 150)):
        got, dist, trans, _ = gen.histories(slice_, maxtx)
        full = [h for h in got if len(h) == maxtx]
        take = rnd.sample(full, min(len(full), n if tier == "quick" else n * 8))
        hs += take
        stats.append({"slice": slice_, "maxtx": maxtx, "histories_generated": len(got), "histories_used": len(take), "states": dist, "transitions": trans})
    lays = layouts_for(rnd, tier)
    jobs = []
    orders = [["in", "out", "intra"], ["in", "intra", "out"], ["out", "in", "intra"], ["out", "intra", "in"], ["intra", "in", "out"], ["intra", "out", "in"]]
    for n, h in enumerate(hs):
        for rep in range(2 if tier == "quick" else 3):
            name, lay = lays[(n * 3 + rep) % len(lays)] if rep else lays[n % len(lays)]
            if not fits(h, lay):
                name, lay = "default", lays[0][1]
            U, P = UNITS11[(n + rep) % len(UNITS11)]
            perm = rnd.sample(range(len(h)), len(h))
            if (n + rep) % 2:
                # timestamps with a sub-second part (microseconds), different from row to row
                h = [dict(x, us=(p * 370003 + 250000 + 7 * n) % 1000000) for p, x in enumerate(h)]
            rows = odsio.sheet_rows(h, lay, rnd, order=tuple(orders[(n + rep) % 6]), blanks=tuple(rnd.randrange(3) for _ in range(4)), row_perm=perm, decoys=rnd.random() < 0.7)
            for r in rows:
                r.pop("pos", None)
            conc = {"U": U, "P": P, "case": rnd.choice(["upper", "lower", "title"])}
            if (n + rep) % 3 == 1:
                days = sorted({(x["t"] + x["off"]) // 86400 for x in h})
                conc["from_day"] = days[len(days) // 2] + (n % 2)          # a from-date (and sometimes a to-date) inside the history
                if n % 4 == 1:
                    conc["to_day"] = days[-1] - 1 if days[-1] - 1 >= conc["from_day"] else None
            jobs.append({"kind": "sheet", "K": K_REAL, "L": lay, "rows": rows, "conc": conc, "tag": f"content:{name}"})
    return jobs, stats


# ---- C12: one fault injected into a valid sheet ------------------------------------------------------
def _set(cell, **kw):
    c = dict(odsio.E)
    c.update(kw)
    cell.clear()
    cell.update(c)


def faults_for_row(tbl, lay):
    """(name, field, mutation) for every documented field-level fault class that applies to a row of table tbl"""
    fs = []
    names = {"in": ["exchange", "holder"], "out": ["exchange", "holder"], "intra": ["from_exchange", "from_holder", "to_exchange", "to_holder"]}[tbl]
    for f in names:
        fs.append((f"unknown_{f}", f, lambda c: _set(c, k="s", s="Nowhere")))
    fs.append(("unknown_asset", "asset", lambda c: _set(c, k="s", s="ZZZ")))
    fs.append(("asset_differs_from_sheet", "asset", lambda c: _set(c, k="s", s="B2")))
    fs.append(("timestamp_without_time_zone", "timestamp", lambda c: c.update(tz=False)))
    if tbl == "in":
        for ty in ("sell", "fee", "lost", "move", "xyz"):
            fs.append((f"type_{ty}_in_in_table", "transaction_type", lambda c, ty=ty: _set(c, k="s", s=ty)))
        amount, others = "crypto_in", ["crypto_fee", "fiat_fee", "fiat_in_no_fee", "fiat_in_with_fee"]
    elif tbl == "out":
        for ty in ("buy", "interest", "move", "xyz"):
            fs.append((f"type_{ty}_in_out_table", "transaction_type", lambda c, ty=ty: _set(c, k="s", s=ty)))
        amount, others = "crypto_out_no_fee", ["crypto_fee", "crypto_out_with_fee", "fiat_out_no_fee", "fiat_fee"]
    else:
        amount, others = "crypto_sent", ["crypto_received"]
    fs.append((f"zero_{amount}", amount, lambda c: _set(c, k="n", n=0)))
    fs.append((f"negative_{amount}", amount, lambda c: _set(c, k="n", n=-1)))
    for f in others:
        if f in lay:
            fs.append((f"negative_{f}", f, lambda c: _set(c, k="n", n=-2)))
    if tbl != "intra":
        fs.append(("zero_spot_price", "spot_price", lambda c: _set(c, k="n", n=0)))
    for f in [amount, "spot_price"] + others:
        if f in lay:
            fs.append((f"non_numeric_{f}", f, lambda c: _set(c, k="s", s="abc")))
    return fs


OPTIONAL_NUMERIC = {"in": ["fiat_in_no_fee", "fiat_in_with_fee"], "out": ["crypto_out_with_fee", "fiat_out_no_fee", "fiat_fee"], "intra": ["spot_price"]}


def fill_optionals(cells, tbl, lay):
    """every empty optional numeric cell of a valid row gets a valid value consistent with the row (the row stays valid)"""
    def val(f):
        c = cells[lay[f]] if f in lay else None
        return c["n"] if c is not None and c["k"] == "n" else 0

    fill = {}
    if tbl == "in":
        fill = {"fiat_in_no_fee": val("crypto_in") * val("spot_price"), "fiat_in_with_fee": val("crypto_in") * val("spot_price") + val("fiat_fee") + val("crypto_fee") * val("spot_price")}
    elif tbl == "out":
        fill = {"crypto_out_with_fee": val("crypto_out_no_fee") + val("crypto_fee"), "fiat_out_no_fee": val("crypto_out_no_fee") * val("spot_price"), "fiat_fee": val("crypto_fee") * val("spot_price")}
    else:
        fill = {"spot_price": 3}
    for f, v in fill.items():
        if f in lay and cells[lay[f]]["k"] == "e" and v > 0:
            _set(cells[lay[f]], k="n", n=v)


def structural_faults(rows0):
    """(name, rows): one structural fault injected into a valid sheet - whether the result is malformed is decided by the specification"""
    res = []
    begins = [i for i, r in enumerate(rows0) if r["k"] == "begin"]
    ends = [i for i, r in enumerate(rows0) if r["k"] == "end"]
    datas = [i for i, r in enumerate(rows0) if r["k"] == "data"]
    for b in begins:
        e = min(x for x in ends if x > b)
        tbl = rows0[b]["tbl"]
        block = copy.deepcopy(rows0[b:e + 1])
        res.append((f"repeated_{tbl}_table_after_itself", rows0[:e + 1] + block + rows0[e + 1:]))
        res.append((f"repeated_{tbl}_table_at_end", rows0 + [{"k": "blank", "tbl": "", "cells": []}] + block))
        res.append((f"missing_end_of_{tbl}_table", rows0[:e] + rows0[e + 1:]))
        other = "out" if tbl != "out" else "intra"
        res.append((f"{other}_keyword_inside_{tbl}_table", rows0[:e] + [{"k": "begin", "tbl": other, "cells": []}] + rows0[e:]))
        res.append((f"blank_row_inside_{tbl}_table", rows0[:e] + [{"k": "blank", "tbl": "", "cells": []}] + rows0[e:]))
        if tbl == "in":
            res.append(("in_table_without_rows", rows0[:b + 2] + rows0[e:]))
            res.append(("no_in_table", rows0[:b] + rows0[e + 1:]))
    if datas:
        res.append(("data_row_after_last_table", rows0 + [copy.deepcopy(rows0[datas[0]])]))
        res.append(("data_row_before_first_table", [copy.deepcopy(rows0[datas[0]])] + rows0))
    res.append(("table_end_outside_a_table", rows0 + [{"k": "end", "tbl": "", "cells": []}]))
    res.append(("text_outside_a_table", rows0 + [{"k": "junk", "tbl": "", "cells": []}]))
    return res


def fault_jobs(rnd, tier):
    jobs = []
    lay = odsio.default_layout()
    hs, dist, trans, _ = gen.histories("F", 3)
    hs2, dist2, trans2, _ = gen.histories("T", 2)
    hs3, dist3, trans3, _ = gen.histories("V", 3)
    full = [h for h in hs if len(h) == 3 and {x["cls"] for x in h} >= {"in", "out"}] + [h for h in hs2 if len(h) == 2 and any(x["cls"] == "intra" for x in h)]
    feeonly = [h for h in hs if len(h) >= 2 and all(x["fee"] > 0 for x in h if x["cls"] == "in")]      # every acquisition carries a crypto fee
    supplied = [h for h in hs3 if len(h) == 3 and any(x["cls"] == "out" and x["vout"] >= 0 for x in h)]   # exchange-supplied fiat values
    n = 12 if tier == "quick" else 80
    bases = rnd.sample(full, n) + rnd.sample(feeonly, min(len(feeonly), max(2, n // 4))) + rnd.sample(supplied, min(len(supplied), max(3, n // 4)))
    dist, trans = dist + dist3, trans + trans3
    for h in bases:
        rows0 = odsio.sheet_rows(h, lay, None)
        for r in rows0:
            r.pop("pos", None)
        for name, rows in structural_faults(rows0):
            jobs.append({"kind": "sheet", "K": K_REAL, "L": lay, "rows": copy.deepcopy(rows), "conc": {"U": "0.5", "P": "10"}, "tag": f"fault:structure:{name}"})
        tbl = None
        for i, r in enumerate(rows0):
            if r["k"] == "begin":
                tbl = r["tbl"]
            if r["k"] != "data":
                continue
            for name, field, mut in faults_for_row(tbl, lay[tbl]):
                rows = copy.deepcopy(rows0)
                mut(rows[i]["cells"][lay[tbl][field]])
                jobs.append({"kind": "sheet", "K": K_REAL, "L": lay, "rows": rows, "conc": {"U": "0.5", "P": "10"}, "tag": f"fault:{name}:row{i + 1}"})
                # the same single fault on the row with every optional numeric cell filled in
                rows = copy.deepcopy(rows0)
                fill_optionals(rows[i]["cells"], tbl, lay[tbl])
                if rows[i]["cells"] != rows0[i]["cells"] and not field.startswith(("fiat_", "crypto_out_with_fee")):
                    mut(rows[i]["cells"][lay[tbl][field]])
                    jobs.append({"kind": "sheet", "K": K_REAL, "L": lay, "rows": rows, "conc": {"U": "0.5", "P": "10"}, "tag": f"fault:{name}:optionals_filled:row{i + 1}"})
            # relational faults
            cells = rows0[i]["cells"]
            if tbl == "in" and cells[lay[tbl]["crypto_fee"]]["k"] == "e":
                for cf, ff in ((1, 1), (1, 0), (0, 1), (0, 0)):      # both fee cells filled in: a contradiction whatever the values
                    rows = copy.deepcopy(rows0)
                    _set(rows[i]["cells"][lay[tbl]["crypto_fee"]], k="n", n=cf)
                    _set(rows[i]["cells"][lay[tbl]["fiat_fee"]], k="n", n=ff)
                    jobs.append({"kind": "sheet", "K": K_REAL, "L": lay, "rows": rows, "conc": {"U": "0.5", "P": "10"}, "tag": f"fault:both_fees_{cf}_{ff}:row{i + 1}"})
            if tbl == "intra":
                rows = copy.deepcopy(rows0)
                _set(rows[i]["cells"][lay[tbl]["crypto_received"]], k="n", n=cells[lay[tbl]["crypto_sent"]]["n"] + 1)
                jobs.append({"kind": "sheet", "K": K_REAL, "L": lay, "rows": rows, "conc": {"U": "0.5", "P": "10"}, "tag": f"fault:received_gt_sent:row{i + 1}"})
                if cells[lay[tbl]["crypto_received"]]["n"] < cells[lay[tbl]["crypto_sent"]]["n"]:
                    rows = copy.deepcopy(rows0)
                    _set(rows[i]["cells"][lay[tbl]["spot_price"]], k="n", n=0)
                    jobs.append({"kind": "sheet", "K": K_REAL, "L": lay, "rows": rows, "conc": {"U": "0.5", "P": "10"}, "tag": f"fault:fee_without_spot_price:row{i + 1}"})
            if tbl == "out" and cells[lay[tbl]["transaction_type"]]["s"] == "fee":
                rows = copy.deepcopy(rows0)
                _set(rows[i]["cells"][lay[tbl]["crypto_out_no_fee"]], k="n", n=1)
                jobs.append({"kind": "sheet", "K": K_REAL, "L": lay, "rows": rows, "conc": {"U": "0.5", "P": "10"}, "tag": f"fault:fee_type_with_amount:row{i + 1}"})
    return jobs, {"base_sheets": len(bases), "states": dist + dist2, "transitions": trans + trans2}


def mutate_obs(trace, prop, rnd):
    t = copy.deepcopy(trace)
    obs = t["obs"]
    if prop == "C11":
        if obs["status"] != "ok":
            return None
        pools = [k for k in ("ins", "outs", "intras") if obs[k]]
        k = rnd.choice(pools)
        rec = rnd.choice(obs[k])
        how = rnd.randrange(3)
        if how == 0:
            num = [f for f in rec if isinstance(rec[f], int) and not isinstance(rec[f], bool) and f != "par"]
            rec[rnd.choice(num)] += 1
        elif how == 1:
            obs[k].remove(rec)
        else:
            obs[k].append(copy.deepcopy(rec))
    else:
        if obs["status"] == "ok":
            return None
        obs["status"] = "ok"
    t["meta"] = dict(t.get("meta", {}), control=True)
    return t


def run(prop, tier):
    timer = common.Timer()
    rnd = random.Random(common.seed() * 7919 + int(prop[1:]))
    q = tier == "quick"
    printed, violations = [], []
    mc, seqs, poolrows = model_check_sheet(7 if q else 9)
    states, transitions = mc["states"], mc["transitions"]
    if "violation" in mc:
        path = common.write_replay(prop, "design", mc)
        violations.append({"kind": "design", "what": mc["violation"], "replay": path})
        printed.append(f"VIOLATION property={prop} replay={path}")
        seqs = []
    print(f"[{timer.s():.0f}s] MC_Sheet: {mc}", file=sys.stderr)
    genstats = {}
    if prop == "C11":
        jobs = token_jobs(seqs, poolrows, rnd, 1500 if q else 10**6, 0) if seqs else []
        cj, genstats = content_jobs(rnd, tier)
        jobs += cj
    else:
        jobs = token_jobs(seqs, poolrows, rnd, 100, 2500 if q else 10**6) if seqs else []
        fj, genstats = fault_jobs(rnd, tier)
        jobs += fj
    for g in (genstats if isinstance(genstats, list) else [genstats]):
        states += g.get("states", 0)
        transitions += g.get("transitions", 0)
    traces = pool.run_jobs(jobs)
    print(f"[{timer.s():.0f}s] {len(traces)} sheets parsed by rp2", file=sys.stderr)
    controls = []
    order = list(range(len(traces)))
    rnd.shuffle(order)
    for i in order:
        if len(controls) >= (40 if q else 200):
            break
        m = mutate_obs(traces[i], prop, rnd)
        if m is not None:
            controls.append((i, m))
    verdicts, st, tr = tlc.validate_traces(traces + [c for _, c in controls], spec="Trace_Sheet.tla")
    states += st
    transitions += tr
    cverd = verdicts[len(traces):]
    verdicts = verdicts[:len(traces)]
    print(f"[{timer.s():.0f}s] traces validated", file=sys.stderr)

    base_ok = {i for i, v in enumerate(verdicts) if not any(not c.startswith("W.") for c, _ in v)}
    # (a sheet the documented format leaves open is not judged either way: it cannot serve as a control)
    free = {i for (i, _), v in zip(controls, cverd) if any(c == "W.free_case_not_judged" for c, _ in v)}
    ctl_total = sum(1 for i, _ in controls if i in base_ok and i not in free)
    ctl_rej = sum(1 for (i, _), v in zip(controls, cverd) if i in base_ok and i not in free and any(c.startswith(prop + ".") for c, _ in v))
    if base_ok and (ctl_total == 0 or ctl_rej < ctl_total):
        common.die_machinery(f"negative controls: {ctl_rej}/{ctl_total} corrupted observations rejected by a {prop} clause")

    by_clause, other, nontrivial, free = {}, {}, 0, 0
    for i, v in enumerate(verdicts):
        names = [c for c, _ in v]
        if "W.free_case_not_judged" in names:
            free += 1
        if prop == "C11" and traces[i]["obs"]["status"] == "ok" and any(n.startswith("W.C11") for n in names):
            nontrivial += 1
        if prop == "C12" and "W.C12.fault_rejected" in names:
            nontrivial += 1
        for c in names:
            if c.startswith(prop + "."):
                by_clause.setdefault(c, []).append((len(traces[i]["rows"]), i))
            elif not c.startswith("W."):
                other[c] = other.get(c, 0) + 1
    for c, lst in sorted(by_clause.items()):
        lst.sort()
        _, i = lst[0]
        t = traces[i]
        path = common.write_replay(prop, c.split(".", 1)[1], {"property": prop, "clause": c, "failing_traces_with_this_clause": len(lst), "tags": sorted({traces[j]["meta"]["tag"] for _, j in lst})[:20],
                                                               "job": t["meta"]["job"], "observed": t["obs"], "message": t["meta"].get("msg", ""), "reproduce": f"./check {prop} --replay <this file>"})
        violations.append({"kind": "trace", "clause": c, "count": len(lst), "replay": path})
        printed.append(f"VIOLATION property={prop} replay={path}")
    tags = {}
    for t in traces:
        k = t["meta"]["tag"].split(":")[0] + ":" + (t["meta"]["tag"].split(":")[1] if prop == "C12" and t["meta"]["tag"].startswith("fault") else "")
        tags[k] = tags.get(k, 0) + 1
    samples = [{"tag": traces[i]["meta"]["tag"], "layout": traces[i]["L"], "rows": traces[i]["rows"][:6], "observed_status": traces[i]["obs"]["status"],
                "message": traces[i]["meta"].get("msg", "")[:200], "verdict": verdicts[i]} for i in order[:3]]
    coverage = {
        "states": states, "transitions": transitions, "traces_validated_against_impl": len(traces), "samples": samples,
        "evaluations": len(traces), "distinct_nontrivial": nontrivial,
        "rule": "one evaluation = one generated spreadsheet + config read by the real parse_ods; non-trivial for C11 = accepted sheet with several rows or an artificial fee disposal, "
                "for C12 = sheet that the specification classifies as malformed and that was rejected; sheets are distinct (structure, layout, content) triples",
        "exhaustive": tier == "thorough", "model_checking": [mc], "generation": genstats, "cases_by_kind": tags,
        "negative_controls": {"generated": ctl_total, "rejected_by_property_clause": ctl_rej},
        "free_cases_not_judged": free, "clauses_of_other_properties_failing": other,
    }
    common.write_evidence(prop, tier, "model_checking", coverage, timer.s(), len(violations), ASSUMPTIONS)
    for line in printed:
        print(line)
    print(f"{prop} [{tier}]: {len(traces)} sheets validated, {nontrivial} non-trivial, TLC states {states}, controls {ctl_rej}/{ctl_total}, violations {len(violations)}, {timer.s():.0f}s")
    return 1 if violations else 0


def replay(prop, path):
    with open(path, encoding="utf-8") as f:
        rep = json.load(f)
    traces = pool.run_jobs([rep["job"]], chunksize=1, procs=1)
    verdicts, _, _ = tlc.validate_traces(traces, spec="Trace_Sheet.tla", shards=1)
    print(json.dumps({"observed": traces[0]["obs"], "message": traces[0]["meta"].get("msg", ""), "failing_clauses": verdicts[0]}, indent=1)[:4000])
    if any(c.startswith(prop + ".") for c, _ in verdicts[0]):
        print(f"VIOLATION property={prop} replay={path}")
        return 1
    print(f"replay of {path}: no clause of {prop} fails on this tree")
    return 0
