"""Spreadsheet side of the harness: abstract sheets (spec/Rp2Sheet.tla) -> .ods + .ini files that the
real rp2 reads; InputData -> abstract observation; reader for the generated reports.

An abstract sheet is a list of rows {k, tbl, cells}; a cell is {k: e|n|s|t, n, s, off, tz}.
The concretiser writes exactly those cells into those columns (ezodf, the library rp2 reads with)."""
import os
from datetime import timedelta, timezone
from decimal import Decimal
from fractions import Fraction

from . import common
from .rp2api import ASSET, BASE, EXCHANGES, HOLDERS, Alpha, acct_names, classify_error, make_engine, ts_string

IN_FIELDS = ["timestamp", "asset", "exchange", "holder", "transaction_type", "spot_price", "crypto_in", "crypto_fee", "fiat_in_no_fee",
             "fiat_in_with_fee", "fiat_fee", "unique_id", "notes"]
OUT_FIELDS = ["timestamp", "asset", "exchange", "holder", "transaction_type", "spot_price", "crypto_out_no_fee", "crypto_fee",
              "crypto_out_with_fee", "fiat_out_no_fee", "fiat_fee", "unique_id", "notes"]
INTRA_FIELDS = ["timestamp", "asset", "from_exchange", "from_holder", "to_exchange", "to_holder", "spot_price", "crypto_sent",
                "crypto_received", "unique_id", "notes"]
FIELDS = {"in": IN_FIELDS, "out": OUT_FIELDS, "intra": INTRA_FIELDS}
MANDATORY = {"in": ["timestamp", "asset", "exchange", "holder", "transaction_type", "spot_price", "crypto_in"],
             "out": ["timestamp", "asset", "exchange", "holder", "transaction_type", "spot_price", "crypto_out_no_fee", "crypto_fee"],
             "intra": ["timestamp", "asset", "from_exchange", "from_holder", "to_exchange", "to_holder", "crypto_sent", "crypto_received"]}
UNIT = {"spot_price": "P", "crypto_in": "U", "crypto_fee": "U", "crypto_out_no_fee": "U", "crypto_out_with_fee": "U", "crypto_sent": "U",
        "crypto_received": "U", "fiat_in_no_fee": "UP", "fiat_in_with_fee": "UP", "fiat_fee": "UP", "fiat_out_no_fee": "UP"}
HEADER_TEXT = "Column title"

E = {"k": "e", "n": 0, "s": "", "off": 0, "tz": False, "us": 0}


def cn(n):
    return {"k": "n", "n": int(n), "s": "", "off": 0, "tz": False, "us": 0}


def cs(s):
    return {"k": "s", "n": 0, "s": s, "off": 0, "tz": False, "us": 0}


def ct(t, off, tz=True, us=0):
    return {"k": "t", "n": int(t), "s": "", "off": int(off), "tz": bool(tz), "us": int(us)}


def default_layout():
    return {tbl: {f: i for i, f in enumerate(FIELDS[tbl])} for tbl in FIELDS}


def random_layout(rnd, width=18, keep_numeric=False):
    """an injective layout: every mandatory field mapped, each optional field mapped or not, first column mandatory;
    keep_numeric: map every numeric field (so that any ledger history can be written under the layout)"""
    lay = {}
    for tbl, fields in FIELDS.items():
        chosen = list(MANDATORY[tbl]) + [f for f in fields if f not in MANDATORY[tbl] and (rnd.random() < 0.7 or (keep_numeric and f in UNIT))]
        cols = rnd.sample(range(1, width), len(chosen) - 1)
        first = rnd.choice(MANDATORY[tbl])
        lay[tbl] = {first: 0}
        for f, c in zip([f for f in chosen if f != first], cols):
            lay[tbl][f] = c
    return lay


def write_ini(path, layout, assets=("B1", "B2", "B3"), sched=None, generators=None, extra_text=""):
    lines = ["[general]", "assets = " + ", ".join(assets), "exchanges = " + ", ".join(EXCHANGES.values()), "holders = " + ", ".join(HOLDERS.values())]
    if generators is not None:
        lines.append("generators = " + ", ".join(generators))
    for tbl in ("in", "out", "intra"):
        lines += ["", f"[{tbl}_header]"] + [f"{f} = {c}" for f, c in layout[tbl].items()]
    if sched:
        lines += ["", "[accounting_methods]"] + [f"{y} = {m}" for y, m in sched]
    with open(path, "w", encoding="utf-8") as f:
        f.write("\n".join(lines) + "\n" + extra_text)


def tx_cells(x, pos, layout, rnd=None, asset=ASSET, width=None, uid=None):
    """cells of the data row of abstract ledger transaction x under a layout; unmapped columns get decoys"""
    tbl = x["cls"]
    lay = layout[tbl]
    width = width or (max(max(l.values()) for l in layout.values()) + 2)
    vals = {"timestamp": ct(x["t"], x["off"], us=x.get("us", 0)), "asset": cs(asset), "unique_id": cs(uid or f"t{pos + 1}"), "notes": cs(f"note {pos + 1}")}
    if tbl == "in":
        e, h = acct_names(x["a1"])
        vals.update(exchange=cs(e), holder=cs(h), transaction_type=cs(x["type"]), spot_price=cn(x["price"]), crypto_in=cn(x["amt"]))
        if x["fee"] > 0:
            vals["crypto_fee"] = cn(x["fee"])
        if x["ffee"] > 0:
            vals["fiat_fee"] = cn(x["ffee"])
        if x["vin"] >= 0:
            vals["fiat_in_no_fee"] = cn(x["vin"])
        if x["vwf"] >= 0:
            vals["fiat_in_with_fee"] = cn(x["vwf"])
    elif tbl == "out":
        e, h = acct_names(x["a1"])
        vals.update(exchange=cs(e), holder=cs(h), transaction_type=cs(x["type"]), spot_price=cn(x["price"]), crypto_out_no_fee=cn(x["amt"]), crypto_fee=cn(x["fee"]))
        if x["vout"] >= 0:
            vals["fiat_out_no_fee"] = cn(x["vout"])
        if x["vfee"] >= 0:
            vals["fiat_fee"] = cn(x["vfee"])
        if (pos + x["amt"]) % 2 == 0 and x["amt"] + x["fee"] > 0:
            vals["crypto_out_with_fee"] = cn(x["amt"] + x["fee"])      # the optional total, filled in on some rows (consistent with amount + fee)
    else:
        e1, h1 = acct_names(x["a1"])
        e2, h2 = acct_names(x["a2"])
        vals.update(from_exchange=cs(e1), from_holder=cs(h1), to_exchange=cs(e2), to_holder=cs(h2), crypto_sent=cn(x["amt"]), crypto_received=cn(x["amt"] - x["fee"]))
        if x["fee"] > 0 or (rnd is not None and rnd.random() < 0.5):
            vals["spot_price"] = cn(x["price"])
    cells = [dict(E) for _ in range(width)]
    used = set()
    for f, c in lay.items():
        used.add(c)
        if f in vals:
            cells[c] = vals[f]
    if rnd is not None:
        for c in range(width):
            if c not in used and rnd.random() < 0.6:
                cells[c] = rnd.choice([cn(rnd.randrange(1, 9000)), cs("decoy"), cs("buy"), cs("Exa")])
    missing = [f for f in vals if f not in lay and f in MANDATORY[tbl]]
    if missing:
        raise common.MachineryError(f"layout does not map mandatory fields {missing}")
    return cells


def sheet_rows(h, layout, rnd=None, order=("in", "out", "intra"), blanks=(0, 1, 0, 0), asset=ASSET, row_perm=None, decoys=False):
    """abstract sheet of a ledger history: tables in the given order, blank rows before/between/after"""
    rows = [{"k": "blank", "tbl": "", "cells": []} for _ in range(blanks[0])]
    width = max(max(l.values()) for l in layout.values()) + 2
    for n, tbl in enumerate(order):
        members = [(p, x) for p, x in enumerate(h) if x["cls"] == tbl]
        if not members and tbl != "in":
            continue
        if row_perm is not None:
            members = sorted(members, key=lambda px: row_perm[px[0]])
        rows.append({"k": "begin", "tbl": tbl, "cells": []})
        rows.append({"k": "hdr", "tbl": "", "cells": []})
        for p, x in members:
            rows.append({"k": "data", "tbl": "", "pos": p, "cells": tx_cells(x, p, layout, rnd if decoys else None, asset, width)})
        rows.append({"k": "end", "tbl": "", "cells": []})
        rows += [{"k": "blank", "tbl": "", "cells": []} for _ in range(blanks[min(n + 1, len(blanks) - 1)])]
    return rows


def _unit(field, U, P):
    u = UNIT.get(field)
    return {"U": U, "P": P, "UP": U * P}.get(u, Decimal(1))


def write_ods(path, sheets, layout, U, P, type_case=str.upper):
    """sheets: {asset: abstract rows}.  Cells are written into exactly the columns given."""
    import ezodf  # pylint: disable=import-outside-toplevel

    U, P = Decimal(U), Decimal(P)
    doc = ezodf.newdoc("ods", path)
    width = max(max(l.values()) for l in layout.values()) + 3
    for asset, rows in sheets.items():
        sheet = ezodf.Table(asset, size=(len(rows) + 2, width))
        doc.sheets += sheet
        tbl = None
        for i, r in enumerate(rows):
            k = r["k"]
            if k == "begin":
                tbl = r["tbl"]
                sheet[i, 0].set_value(tbl.upper())
            elif k == "end":
                sheet[i, 0].set_value("TABLE END")
            elif k == "hdr":
                for c in range(width - 1):
                    sheet[i, c].set_value(f"{HEADER_TEXT} {c}")
            elif k == "junk":
                sheet[i, 0].set_value("some text")
            elif k == "blank":
                for c, cell in enumerate(r.get("cells") or []):
                    if c > 0:
                        _put(sheet[i, c], cell, None, U, P, type_case)
            elif k == "data":
                col2field = {c: f for f, c in layout.get(r.get("as") or tbl or "in", {}).items()}
                for c, cell in enumerate(r["cells"]):
                    _put(sheet[i, c], cell, col2field.get(c), U, P, type_case)
    doc.save()


def _put(target, cell, field, U, P, type_case):
    k = cell["k"]
    if k == "n":
        target.set_value(float(Decimal(cell["n"]) * _unit(field, U, P)))
    elif k == "s":
        target.set_value(type_case(cell["s"]) if field == "transaction_type" else cell["s"])
    elif k == "t":
        s = ts_string(cell["n"], cell["off"], cell.get("us", 0))
        target.set_value(s if cell["tz"] else _strip_zone(s))


def _strip_zone(s):
    """the timestamp text without its UTC offset"""
    import re  # pylint: disable=import-outside-toplevel

    return re.sub(r"[+-]\d\d:\d\d$", "", s)


# ---- observation of what rp2 parsed -----------------------------------------------------------
def _tsobs(dt):
    """(whole seconds since the epoch of the specification, UTC offset, True) - the sub-second part is reported separately by _us"""
    off = int(dt.utcoffset().total_seconds())
    d = dt - BASE
    return d.days * 86400 + d.seconds, off, True


def _us(dt):
    return int(dt.microsecond)


def _uid(s):
    return cs(s) if s else dict(E)


def observe_input(idata, al):
    """InputData -> the records of spec/Rp2Sheet.tla (TxIn / TxOut / TxIntra)"""
    ins, outs, intras = [], [], []
    exact = True
    for t in idata.unfiltered_in_transaction_set:
        tt, off, ok = _tsobs(t.timestamp)
        exact = exact and ok
        ins.append({"row": t.row, "t": tt, "us": _us(t.timestamp), "off": off, "type": t.transaction_type.value, "exch": t.exchange, "holder": t.holder,
                    "price": al._int(Fraction(t.spot_price) / al.P), "amt": al.amt(t.crypto_in), "cfee": al.amt(t.crypto_fee),
                    "ffee": al._int(Fraction(t.fiat_fee) / (al.U * al.P)), "fin": al._int(Fraction(t.fiat_in_no_fee) / (al.U * al.P)),
                    "fwf": al._int(Fraction(t.fiat_in_with_fee) / (al.U * al.P)), "uid": _uid(t.unique_id)})
    art_parent = {t.unique_id: t.row for t in idata.unfiltered_in_transaction_set}
    for t in idata.unfiltered_out_transaction_set:
        tt, off, ok = _tsobs(t.timestamp)
        exact = exact and ok
        art = t.row < 0
        outs.append({"row": 0 if art else t.row, "t": tt, "us": _us(t.timestamp), "off": off, "type": t.transaction_type.value, "exch": t.exchange, "holder": t.holder,
                     "price": al._int(Fraction(t.spot_price) / al.P), "amt": al.amt(t.crypto_out_no_fee), "cfee": al.amt(t.crypto_fee),
                     "owf": al.amt(t.crypto_out_with_fee), "fout": al._int(Fraction(t.fiat_out_no_fee) / (al.U * al.P)),
                     "ffee": al._int(Fraction(t.fiat_fee) / (al.U * al.P)), "uid": _uid(t.unique_id),
                     "par": art_parent.get(t.unique_id, -1) if art else 0})
    for t in idata.unfiltered_intra_transaction_set:
        tt, off, ok = _tsobs(t.timestamp)
        exact = exact and ok
        intras.append({"row": t.row, "t": tt, "us": _us(t.timestamp), "off": off, "fe": t.from_exchange, "fh": t.from_holder, "te": t.to_exchange, "th": t.to_holder,
                       "price": al._int(Fraction(t.spot_price) / al.P), "sent": al.amt(t.crypto_sent), "recv": al.amt(t.crypto_received),
                       "ffee": al._int(Fraction(t.fiat_fee) / (al.U * al.P)), "uid": _uid(t.unique_id)})
    return {"status": "ok", "ins": ins, "outs": outs, "intras": intras, "ex": bool(al.exact and exact)}


# ---- ledger pipeline in spreadsheet mode ------------------------------------------------------------
def run_ods(job, run, cfg_unused, state):
    """like rp2api.run_once, but the first k transactions go through a generated spreadsheet and parse_ods"""
    # pylint: disable=import-outside-toplevel
    import random

    from rp2.configuration import Configuration
    from rp2.ods_parser import open_ods, parse_ods
    from rp2.tax_engine import compute_tax

    from .rp2api import country_of, day_to_date

    h = job["h"]
    conc = job["conc"]
    k = run["k"]
    sh = conc.get("sheet", {})
    layout = sh.get("layout") or default_layout()
    rnd = random.Random(sh.get("seed", 0))
    rows = sheet_rows(h[:k], layout, rnd, order=tuple(sh.get("order", ("in", "out", "intra"))), blanks=tuple(sh.get("blanks", (0, 1, 0, 0))),
                      row_perm=sh.get("row_perm"), decoys=sh.get("decoys", False))
    base = os.path.join(state["wdir"], f"ods_{os.getpid()}")
    ini, ods = base + ".ini", base + ".ods"
    write_ini(ini, layout)
    write_ods(ods, {ASSET: rows}, layout, conc["U"], conc["P"])
    cfg = Configuration(ini, country_of(job["c"]), day_to_date(run["from"]), day_to_date(run["to"]), bool(run["neg"]))
    idata = parse_ods(cfg, ASSET, open_ods(cfg, ods))
    fee_parents = [p for p, x in enumerate(h) if x["cls"] == "in" and x["fee"] > 0]
    row2pos = {i + 1: r["pos"] for i, r in enumerate(rows) if r["k"] == "data"}
    idmap = {}
    free = list(fee_parents)
    al = Alpha(conc["U"], conc["P"], 1)
    for s in (idata.unfiltered_in_transaction_set, idata.unfiltered_out_transaction_set, idata.unfiltered_intra_transaction_set):
        for t in s:
            if t.row >= 0:
                idmap[t.internal_id] = row2pos[t.row] + 1
            else:
                # artificial fee disposal: its parent is an acquisition with the same instant, account and crypto fee
                tt, _off, _ok = _tsobs(t.timestamp)
                cand = [p for p in free if p < k and h[p]["t"] == tt and acct_names(h[p]["a1"]) == (t.exchange, t.holder) and h[p]["fee"] == al.amt(t.crypto_fee)]
                if not cand:
                    raise common.MachineryError(f"artificial transaction {t} has no parent acquisition")
                free.remove(cand[0])
                idmap[t.internal_id] = len(h) + 1 + fee_parents.index(cand[0])
    try:
        cd = compute_tax(cfg, make_engine(job["c"]["sched"]), idata)
    except Exception as exc:  # pylint: disable=broad-except
        status, acct = classify_error(exc)
        return status, acct, f"{type(exc).__name__}: {str(exc)[:300]}", None, idmap
    return "ok", 0, "", cd, idmap


def do_sheet_job(job, state):
    """write the abstract sheet, let the real parse_ods read it, return the trace for spec/Trace_Sheet.tla"""
    # pylint: disable=import-outside-toplevel
    from rp2.configuration import Configuration
    from rp2.ods_parser import open_ods, parse_ods
    from rp2.plugin.country.us import US

    conc = job["conc"]
    K = job["K"]
    base = os.path.join(state["wdir"], f"sheet_{os.getpid()}")
    ini, ods = base + ".ini", base + ".ods"
    write_ini(ini, job["L"], assets=K["assets"])
    case = {"upper": str.upper, "lower": str.lower, "title": str.title}[conc.get("case", "upper")]
    write_ods(ods, {K["asset"]: job["rows"]}, job["L"], conc["U"], conc["P"], case)
    al = Alpha(conc["U"], conc["P"], 1)
    msg = ""
    try:
        if conc.get("from_day") is not None or conc.get("to_day") is not None:
            # date filters of the run are in force while the sheet is parsed: every row is still to be read (filters only hide rows in reports)
            from .rp2api import day_to_date  # pylint: disable=import-outside-toplevel

            cfg = Configuration(ini, US(), day_to_date(conc["from_day"] if conc.get("from_day") is not None else common.MIN_DAY),
                                day_to_date(conc["to_day"] if conc.get("to_day") is not None else common.MAX_DAY))
        else:
            cfg = Configuration(ini, US())
        idata = parse_ods(cfg, K["asset"], open_ods(cfg, ods))
        obs = observe_input(idata, al)
    except Exception as exc:  # pylint: disable=broad-except
        obs = {"status": "error", "ins": [], "outs": [], "intras": [], "ex": True}
        msg = f"{type(exc).__name__}: {str(exc)[:300]}"
    return {"K": K, "L": job["L"], "rows": job["rows"], "obs": obs, "meta": {"tag": job.get("tag", ""), "msg": msg, "job": job}}
