"""Process pool running jobs against the real rp2 (one private cwd per worker, DESIGN.md P6)."""
import multiprocessing as mp

from . import common, rp2api


def run_jobs(jobs, chunksize=8, procs=None):
    if not jobs:
        return []
    ctx = mp.get_context("fork")
    with ctx.Pool(procs or common.NCPU, initializer=rp2api.worker_init, initargs=(common.scratch(),)) as pool:
        res = pool.map(rp2api.do_job, jobs, chunksize=chunksize)
    errs = [r for r in res if "error" in r]
    if errs:
        raise common.MachineryError(f"{len(errs)} jobs failed in the harness; first: {errs[0]['error']}\njob={errs[0]['job']}")
    return res
