#!/bin/sh
# Build step of the verification framework: everything is interpreted (TLA+ via TLC, Python harness),
# so "building" means parsing every specification module and byte-compiling the harness.
set -e
cd "$(dirname "$0")"
exec /venv/bin/python -B harness/setup_check.py "$@"
