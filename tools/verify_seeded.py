#!/venv/bin/python
"""tools/verify_seeded.py [<id> ...]: for every seeded change under /verif/seeded (or the ones named), in a scratch worktree of /repo
(never /repo itself): the patch applies, the 48 baseline tests still pass, the demonstration fails with and passes without the patch,
and the property's quick check raises VIOLATION on the patched tree.  Writes seeded/<id>/meta.json and seeded/RESULTS.md."""
import json
import os
import re
import subprocess
import sys

VERIF = os.path.dirname(os.path.dirname(os.path.abspath(__file__)))
SEEDED = os.path.join(VERIF, "seeded")

NEEDS = {
    "C01_m1": "FIFO + an income event whose amount equals the oldest open lot's remaining balance (the window start is advanced past a lot that is not consumed)",
    "C01_m2": "mixed UTC offsets on one asset with a lot and a disposal closer together than the offset difference (lot index keyed by written time instead of instant)",
    "C02_m1": "mixed UTC offsets where a lot and a disposal sort differently by written time than by instant, and the disposal needs that lot",
    "C02_m2": "HIFO/LOFO + an earn-typed acquisition at least as large as the top-ranked lot, then disposals that need that lot (conditional re-push, the repaired defect D1 re-introduced)",
    "C03_m1": "a fee-paying transfer whose source and destination account are identical",
    "C03_m2": "an OUT-table row of type STAKING (the only type valid in both tables)",
    "C04_m1": "an acquisition with exchange-supplied fiat_in_no_fee but no fiat_in_with_fee, the supplied value differing from amount x price",
    "C04_m2": "a fee-only event (FEE-typed out-transaction or the artificial fee disposal of a crypto-fee acquisition)",
    "C05_m1": "lot and disposal with different UTC offsets and a holding period within hours of the threshold",
    "C05_m2": "several assets in one process whose sheets share a (disposal row, lot row) pair with different holding periods (cache keyed by row pair)",
    "C06_m1": "a to-date in the middle of a year with taxable events later in the same year",
    "C06_m2": "one disposal covered by several lots that straddle the one-year holding period",
    "C07_m1": "a transfer between two different holders (joint filing)",
    "C07_m2": "at least two holders whose balance rows interleave in exchange_holder order (stale accumulator in the report's Total rows)",
    "C08_m1": "a transfer with a non-zero fee followed by an overdraft of the sending account no larger than that fee",
    "C08_m2": "an acquisition with a crypto fee on an account holding less than the fee, or a same-instant credit and debit with the debit on the smaller row",
    "C09_m1": "mixed UTC offsets under HIFO/LIFO/LOFO where a later lot's written time precedes the disposal's: it uncovers a lot that was hidden, changing an earlier pairing",
    "C09_m2": "a to-date that is not year-end with a taxable event later in the same year",
    "C10_m1": "a from-date with a fee-paying transfer before it and a later disposal inside the window that reaches the affected lot",
    "C10_m2": "a non-UTC timestamp within hours of midnight whose local and UTC dates fall on opposite sides of a window bound",
    "C11_m1": "a numeric cell with more than 11 significant digits (large integer part next to many decimals)",
    "C11_m2": "an acquisition with a crypto fee whose optional fiat_in_with_fee cell is empty or unmapped",
    "C12_m1": "a repeated IN table whose first block consists only of crypto-fee rows (two cooperating edits in the parser)",
    "C12_m2": "a non-fee OUT row with spot price 0 and the optional fiat_out_no_fee cell filled",
    "C13_m1": "LIFO/HIFO/LOFO and a lot consumed, then another lot, then the first lot again",
    "C13_m2": "exactly one of -f / -t given (Legend shows both filters only when both are given)",
    "C14_m1": "rp2_ie with -f and a sheet whose types occur only before the from-date for every asset (empty sheet kept)",
    "C14_m2": "rp2_us and one disposal split over lots that straddle the one-year boundary (LONG/SHORT computed once per event)",
    "C15_m1": "two holders with a positive balance of one asset, one of them on two exchanges, the other holder's account sorting in between",
    "C15_m2": "a to-date with a disposal after it that consumes a lot acquired on or before it",
    "C16_m1": "a -t date falling exactly on a day with a taxable event",
    "C16_m2": "at least two holders that both still have a non-zero balance (Total rows appended to the wrong sheet)",
    "C17_m1": "two assets processed in one run whose sheets share a (disposal row, lot row) pair with different holding periods",
    "C17_m2": "HIFO, two available lots with the same spot price, the IN table not in chronological order, a disposal that does not consume both",
    "C18_m1": "the output directory already holds a symbolic link named like one of this run's reports, pointing outside it",
    "C18_m2": "a run that fails with an error that is not rp2's own (e.g. a config without any section header): platform.platform() spawns uname",
    "C19_m1": "two or more assets, -f inside year Y, a later asset whose year-Y rows are all hidden while an earlier asset has visible year-Y rows",
    "C19_m2": "three or more crypto-fee acquisitions in one run, the k-th artificial id colliding with the row of a real lot of the same asset",
    "C20_m1": "an asset with a fee-less transfer in some year and a sheet for a later year",
    "C20_m2": "two assets, the alphabetically later one starting in a later year than the earlier one",
    # round 2 (the agents were told what round 1 needed and asked for other mechanisms)
    "C01_m3": "a year->method schedule with at least three entries and a disposal in a year whose candidate set was dropped (right subtree of the schedule tree skipped)",
    "C01_m4": "LIFO/HIFO/LOFO, an earlier disposal leaving its lot partially consumed, then an income event and a disposal at the same instant (stale lot carried across the income event)",
    "C02_m3": "two taxable events at the same instant, the first ending exactly on a lot boundary (valid history rejected: zero crypto amount)",
    "C02_m4": "a from-date, a fee-bearing transfer before it (its fee no longer consumes a lot)",
    "C03_m3": "a transfer whose fee is worth at most half a cent of fiat (taxability decided after rounding to cents)",
    "C03_m4": "an earn-typed acquisition that carries a fee (taxed at its value without instead of with the fee)",
    "C04_m3": "a sale with a crypto fee whose exchange-supplied fiat fee differs from fee x price, without a supplied sale value",
    "C04_m4": "two assets in one process whose lots share a row number at different unit costs (unit-cost cache keyed by row)",
    "C05_m3": "an acquisition with a crypto fee and a sub-second timestamp, sold within that sub-second fraction of the threshold (rebuilt lot loses its microseconds) - outside the whole-second lattice of Rp2Ledger; caught by C11",
    "C05_m4": "the ES plugin and a holding period of exactly 365 days (threshold 366)",
    "C06_m3": "a taxable event within the UTC-offset hours of new year written with a non-zero offset (year bucket taken in UTC)",
    "C06_m4": "a (year, type, long/short) key whose fractions net to exactly zero gain (line dropped)",
    "C07_m3": "a transfer to the same account (credit overwrites the debit)",
    "C07_m4": "a to-date, non-UTC timestamps, a transaction between local midnight and UTC midnight at the to-date (balances cut by UTC date)",
    "C08_m3": "an account emptied and then debited several times by amounts below the tolerance that add up beyond it (dust snapped to zero)",
    "C08_m4": "a from-date and an earlier disposal on the overdrawn account (disposals before the from-date dropped from the running balance)",
    "C09_m3": "a to-date and a lot used before and again after it (fraction counts shared with the unfiltered set)",
    "C09_m4": "a to-date and a lot acquired before it that is sold after it (sold percentage counts later sales)",
    "C10_m3": "a mid-year from-date with a taxable event earlier in that year (yearly lines built from the filtered set)",
    "C10_m4": "a to-date and a lot used by a shown fraction and again after the to-date (re-sort before the window is set)",
    "C11_m3": "a layout whose first column is a numeric field that is legitimately 0 on some row (0 taken for an empty cell)",
    "C11_m4": "an [out_header] mapping the optional crypto_out_with_fee column, the cell filled, crypto fee > 0",
    "C12_m3": "both fee cells of an acquisition filled in with one of them an explicit 0",
    "C12_m4": "received > sent on a fee-less transfer with an empty spot price (two cooperating edits)",
    "C13_m3": "an asset with an out-transaction carrying a crypto fee and a transfer (fee running sum of transfers seeded by out fees)",
    "C13_m4": "a mid-year from-date with taxable events earlier in that year (yearly summary from the filtered set)",
    "C14_m3": "rp2_us and an OUT-table Staking transaction (lot columns left blank)",
    "C14_m4": "rp2_ie and a disposal whose timestamp has a UTC offset and crosses midnight when converted to UTC (date sold in UTC)",
    "C15_m3": "a transfer to the same account (balance too high)",
    "C15_m4": "an income event before later disposals of the asset (sold-percentage scan stops at the first income event)",
    "C16_m3": "one asset with about 21 more gain/loss fractions than taxable events (Tax sheet allocated too few rows)",
    "C16_m4": "an [accounting_methods] section with at least three periods and a taxable event in a dropped period",
    "C17_m3": "two lots acquired within the same second (distinct sub-second parts) listed in reverse order, the most recent lots before a disposal",
    "C17_m4": "two taxable transaction types in the same asset, year and term, runs under different hash seeds (incomplete sort key over a set)",
    "C18_m3": "a config in the deprecated JSON format containing the generators key (remote $ref resolved over the network)",
    "C18_m4": "RP2_ENABLE_PROFILER set in the environment (profile dumped to ./cumulative)",
    "C19_m3": "an asset and year whose first taxable event is income-typed (Summary link skips income rows)",
    "C19_m4": "a disposal taking less than 5e-14 of a lot (sold percentage equal to zero at 13 decimals): outside the integer lattice of the specification (amount ratios of 1e14)",
    "C20_m3": "a DONATE followed in the same asset-year by an income acquisition or a fee-bearing transfer (donation text carried over)",
    "C20_m4": "the first transaction of year Y+1 earlier, as an instant, than the first of year Y (mixed UTC offsets at year end)",
    # round 3
    "C01_m5": "HIFO/LOFO/LIFO, two assets in one run whose lots share rows with a different price (or time) ordering (sort-key cache keyed by row)",
    "C01_m6": "two lots at exactly the same instant, the one with a crypto fee on the lower row, a disposal that should reach it (lot queued behind its sibling)",
    "C02_m5": "a FEE-typed out-transaction or the artificial fee disposal of a crypto-fee acquisition (twice the fee taken from lots)",
    "C02_m6": "a lot acquired at the instant of a disposal whose id sorts above the disposal's (crypto-fee purchase as first lot, or OUT table above IN table)",
    "C03_m5": "the last taxable event of an asset is a disposal that exactly finishes its lot (entry added after the next-event fetch)",
    "C03_m6": "a from-date and a fee-paying transfer before it",
    "C04_m5": "an earn-typed acquisition with a fee or a supplied value with fee (taxed without the fee)",
    "C04_m6": "a spreadsheet cell with more than 11 significant digits (only through the .ods path)",
    "C05_m5": "one disposal matched to lots on both sides of the threshold (yearly summary classifies it by its first fraction)",
    "C05_m6": "the generic plugin with LONG_TERM_CAPITAL_GAINS=0 and an income event (income long-term)",
    "C06_m5": "a to-date and a taxable event on that very day (iterator bound exclusive, summary inclusive)",
    "C06_m6": "IN staking and OUT staking of one asset in one year, same term (two accumulators collide in a set)",
    "C07_m5": "a FEE-typed out-transaction (debited twice from the account)",
    "C07_m6": "a from-date and a transfer before it (transfers before the from-date vanish from the balances)",
    "C08_m5": "a transfer between two holders (debited from the receiving holder's account)",
    "C08_m6": "the optional crypto_out_with_fee supplied with a value different from amount + fee (inconsistent input: outside the alphabet of the specification)",
    "C09_m5": "a to-date and a transfer after it (transfer view loses its upper bound)",
    "C09_m6": "a to-date and a transaction on that very day (balances stop one day early)",
    "C10_m5": "a to-date and a transfer after it",
    "C10_m6": "a to-date coinciding with the date of a transaction (balances exclude the to-date itself)",
    "C11_m5": "a from-date and a disposal before it (report filter applied to the OUT set at parse time)",
    "C11_m6": "a crypto-fee acquisition with a sub-second timestamp (artificial fee disposal loses the microseconds)",
    "C12_m5": "-a naming an asset that is not configured (or in the wrong case)",
    "C12_m6": "a fault in the sheet of an asset that is not processed first (reports of the earlier assets left behind)",
    "C13_m5": "a to-date and a lot with a further fraction after it (k/n labels shared with the unfiltered set)",
    "C13_m6": "a transfer between two holders (credited to the destination exchange under the sending holder)",
    "C14_m5": "a to-date and a taxable event on that very day",
    "C14_m6": "an earn-typed acquisition with a fee",
    "C15_m5": "a FEE-typed out-transaction and holdings left (twice the fee taken from lots, once from balances)",
    "C15_m6": "a to-date, non-UTC offsets, a transaction between local and UTC midnight at the to-date (balances cut by UTC date)",
    "C16_m5": "rp2_us and an out-transaction of type Lost (sheet that the template lacks)",
    "C16_m6": "a to-date earlier than the first acquisition of some configured asset (0/0 average price)",
    "C17_m5": "three or more crypto-fee purchases in one run: artificial ids counting upwards collide with rows of another asset processed in the same run",
    "C17_m6": "two or more assets processed together under different hash seeds (asset order unsorted)",
    "C18_m5": "a config file saved with a UTF-8 byte order mark (rewritten in place)",
    "C18_m6": "a regular file named log in the working directory (log file written to the working directory instead)",
    "C19_m5": "a generation language that translates the sheet name pattern (es, kl): Summary links name a sheet that does not exist",
    "C19_m6": "two assets where the last transaction looked up for one and the first taxable event of the next share a row number (one-entry memo survives between assets)",
    "C20_m5": "the optional fiat_out_no_fee supplied with a value different from amount x price (sold yen taken from it)",
    "C20_m6": "-g kl and an asset with two or more years (previous sheet named without the localised pattern)",
    # round 4 (one change each, built from two cooperating edits or an interaction of two options)
    "C10_m7": "a from-date and a lot used partly by a disposal before it and again by one inside the window (k/n counters restart at the window start)",
    "C01_m7": "a from-date and a fee-bearing transfer before it, then a disposal inside the window that reaches the lot that paid the fee",
    "C02_m7": "a year->method schedule whose later period is HIFO/LIFO/LOFO, a lot partly consumed when that period begins, a later disposal that needs the remainder",
    "C03_m7": "an IN-table row of type DONATE (donation received taxed as income)",
    "C05_m7": "rp2_full_report: an income row directly after a long-term fraction of the same asset (label carried over)",
    "C06_m7": "two assets in one process whose fractions share a (event row, lot row) pair with different year, type or term (cache keyed by rows)",
    "C07_m7": "a transfer whose fee is worth less than half a cent of fiat (fee leaves the balances but stays in the lots)",
    "C08_m7": "-t, non-UTC offsets and an overdrawing debit on the to-date itself between local and UTC midnight (cut by UTC date)",
    "C14_m7": "two assets whose disposed lots sit on the same input row with different acquisition dates (date-acquired cache keyed by row)",
    "C15_m7": "an OUT-table STAKING transaction with holdings left (consumed lot part counted as unsold)",
    "C18_m7": "rp2_jp with language ja (template link file) and a relative output directory: reports written under the installed package",
    "C04_m7": "an out-transaction whose exchange-supplied fiat_out_no_fee lies within half a cent of amount x price without being equal (supplied value dropped)",
    "C09_m7": "HIFO/LIFO/LOFO, two assets in one run, a later lot of the first asset on the same row as an earlier lot of the second (sort key memo keyed by row)",
    "C11_m7": "a sheet whose INTRA table is not the last table (rows after its TABLE END are not read)",
    "C13_m7": "a FEE-typed out-transaction (entered, or the artificial fee disposal of a crypto-fee acquisition): USD Out shows the fee",
    "C16_m7": "a transfer into an account and a disposal from it at the same timestamp, the balance before that instant smaller than the disposal, no -n",
    "C19_m7": "a taxable event whose local year differs from its UTC year (Summary links bucket rows by UTC year)",
    "C20_m7": "two transactions of one asset at the same timestamp (same-second fills, buy and sell, or the artificial fee of a crypto-fee purchase)",
    # round 5 (three changes, the agents were given a list of kinds of trigger and asked to avoid the obvious one-liner)
    "C06_m8": "one taxable event split over lots on both sides of the one-year holding boundary (summary key cached per event: the SHORT fraction lands on the LONG line)",
    "C07_m8": "two different holders with accounts on the same exchange (Account equality ignores the holder)",
    "C14_m8": "rp2_us with a from-date later than some fraction of a transaction type, two assets (row counters advanced by a count that ignores the from-date: gap rows, empty sheets kept)",
    "C03_m8": "an acquisition of type HARDFORK in the IN table (is_taxable false for that one earn type)",
    "C11_m8": "a header section that maps a field to a column index of 16 or more (index taken modulo 16)",
    "C04_m8": "a long-term disposal taking a partial fraction of a lot bought with a non-zero acquisition fee, fraction / lot amount not a multiple of 0.0001",
    "C17_m8": "LIFO/HIFO/LOFO, two assets in one process, the earlier one ending with a partially consumed lot that no later disposal re-selected, the later one with a lot on the same row (partial-amount map shared by the assets)",
    "C15_m8": 'an earn-typed lot (interest, staking, mining, airdrop, income, wages, hard fork) left entirely unsold at the to-date',
    "C12_m8": 'an INTRA row between two accounts of one holder whose destination exchange is not listed in the configuration',
    "C13_m8": 'an out-transaction of type GIFT (SELL, DONATE and the other types are unaffected)',
    "C16_m8": 'rp2_jp with generation language ja (its default): the only templates resolved through link files',
    "C17_m7": "-f mid-year, two assets, the later asset's events of that year all before the from-date while the earlier asset has one after it (Summary link row keyed by year only)",
    "C12_m7": "-m equal to the country's default method together with an [accounting_methods] section in the config (conflict no longer rejected)",
}


def first_line(path):
    try:
        with open(path, encoding="utf-8") as f:
            for line in f:
                line = line.strip().lstrip("#").strip()
                if line:
                    return line[:300]
    except OSError:
        pass
    return ""


def main():
    ids = sys.argv[1:] or sorted(d for d in os.listdir(SEEDED) if os.path.isdir(os.path.join(SEEDED, d)))
    rows = []
    for mid in ids:
        d = os.path.join(SEEDED, mid)
        prop = mid.split("_")[0]
        p = subprocess.run([os.path.join(VERIF, "tools", "verify_mutant.sh"), d, prop], capture_output=True, text=True, check=False)
        out = p.stdout + p.stderr
        demo_without = re.search(r"demo without patch: exit (\d+)", out)
        demo_with = re.search(r"demo with patch: exit (\d+)", out)
        tests = re.search(r"baseline tests with patch: (.*)", out)
        clauses = sorted({m.split("/")[-1][len(prop) + 1:-5] for m in re.findall(r"VIOLATION property=\S+ replay=(\S+)", out)})
        summary = [l for l in out.splitlines() if l.startswith(f"{prop} [")]
        meta = {
            "id": mid, "property": prop, "what": first_line(os.path.join(d, "README.md")), "needs_to_manifest": NEEDS.get(mid, "see README.md"),
            "author": "independent sub-agent given only the property text and a scratch worktree of /repo (nothing from /verif)",
            "confirmed": {
                "patch_applies_to": subprocess.run(["git", "-C", "/repo", "rev-parse", "--short", "HEAD"], capture_output=True, text=True, check=False).stdout.strip(),
                "baseline_tests_with_patch": tests.group(1).strip() if tests else "?",
                "demo_exit_without_patch": int(demo_without.group(1)) if demo_without else None,
                "demo_exit_with_patch": int(demo_with.group(1)) if demo_with else None,
                "command": f"tools/verify_mutant.sh seeded/{mid} {prop}   (scratch worktree of /repo, patch applied with git apply, removed afterwards)",
            },
            "check": {"command": f"RP2_REPO=<patched worktree> ./check {prop} --tier quick", "caught": bool(clauses), "failing_clauses": clauses, "summary": summary[-1] if summary else ""},
        }
        with open(os.path.join(d, "meta.json"), "w", encoding="utf-8") as f:
            json.dump(meta, f, indent=1)
        rows.append(meta)
        print(mid, "caught" if clauses else "MISSED", clauses, flush=True)
    if not sys.argv[1:]:
        with open(os.path.join(SEEDED, "RESULTS.md"), "w", encoding="utf-8") as f:
            f.write("# Seeded changes and the checks that catch them\n\n| id | needs to manifest | tests with patch | demo without/with | quick check | failing clauses |\n|---|---|---|---|---|---|\n")
            for m in rows:
                c = m["confirmed"]
                f.write(f"| {m['id']} | {m['needs_to_manifest']} | {c['baseline_tests_with_patch'].split(',')[0]} | {c['demo_exit_without_patch']}/{c['demo_exit_with_patch']} | "
                        f"{'VIOLATION' if m['check']['caught'] else 'missed'} | {', '.join(m['check']['failing_clauses'])} |\n")


if __name__ == "__main__":
    main()
