#!/bin/sh
# verify_all.sh <property> : both mutants of a property, log to /tmp/vm_<prop>.log
P=$1
for m in m1 m2; do echo "######## $P $m"; /verif/tools/verify_mutant.sh /tmp/wt_${P}_out/$m $P; done > /tmp/vm_$P.log 2>&1
