#!/bin/sh
# usage: verify_mutant.sh <dir with patch.diff and demo.py> <property id> [tier]
# In a scratch worktree of /repo (never /repo itself): the patch applies, the 48 baseline tests pass,
# the demo fails with / passes without the patch; then ./check <prop> runs against the patched worktree
# (RP2_REPO points the harness at it).  Evidence files are written to a scratch directory.
D=$1; P=$2; TIER=${3:-quick}
WT=/tmp/vm_wt_$$
git -C /repo worktree add -q --detach $WT HEAD || exit 2
mkdir -p ${WT}_run
cd ${WT}_run
PYTHONPATH=$WT/src /venv/bin/python $D/demo.py >/dev/null 2>&1; echo "demo without patch: exit $?"
git -C $WT apply $D/patch.diff || { echo "PATCH DOES NOT APPLY"; git -C /repo worktree remove --force $WT; exit 2; }
PYTHONPATH=$WT/src /venv/bin/python $D/demo.py >/dev/null 2>&1; echo "demo with patch: exit $?"
echo "baseline tests with patch: $(cd $WT && PYTHONPATH=$WT/src /venv/bin/python -m pytest -q -p no:cacheprovider --timeout=900 --continue-on-collection-errors 2>&1 | tail -1)"
cd /verif && RP2_REPO=$WT VERIF_EVIDENCE_DIR=${WT}_ev ./check $P --tier $TIER 2>&1 | grep -v "^\[" | tail -6
echo "check exit: $?"
git -C /repo worktree remove --force $WT; rm -rf ${WT}_run ${WT}_ev
