#!/venv/bin/python
"""tools/seeded_results.py: seeded/RESULTS.md from the meta.json files that tools/verify_seeded.py wrote"""
import json
import os

SEEDED = os.path.join(os.path.dirname(os.path.dirname(os.path.abspath(__file__))), "seeded")
rows = []
for d in sorted(os.listdir(SEEDED)):
    p = os.path.join(SEEDED, d, "meta.json")
    if os.path.exists(p):
        with open(p, encoding="utf-8") as f:
            rows.append(json.load(f))
with open(os.path.join(SEEDED, "RESULTS.md"), "w", encoding="utf-8") as f:
    caught = sum(1 for m in rows if m["check"]["caught"])
    f.write(f"# Seeded changes and the checks that catch them\n\n{caught} of {len(rows)} caught by the quick tier of their own property's check "
            "(m1, m2: round 1; m3, m4: round 2; m5, m6: round 3; m7: round 4; m8: round 5; every change written by an independent sub-agent from the property text alone and "
            "re-confirmed by tools/verify_seeded.py in a scratch worktree).\n\n"
            "| id | needs to manifest | tests with patch | demo without / with | quick check | failing clauses |\n|---|---|---|---|---|---|\n")
    for m in rows:
        c = m["confirmed"]
        f.write(f"| {m['id']} | {m['needs_to_manifest']} | {c['baseline_tests_with_patch'].split(',')[0]} | {c['demo_exit_without_patch']} / {c['demo_exit_with_patch']} | "
                f"{'VIOLATION' if m['check']['caught'] else 'missed'} | {', '.join(m['check']['failing_clauses'])} |\n")
print(f"{caught} of {len(rows)} caught")
