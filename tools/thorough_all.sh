#!/bin/sh
# tools/thorough_all.sh [ids...]: every check's thorough command once on the unchanged tree (evidence to a scratch directory): timing and sanity
cd "$(dirname "$0")/.."
IDS=${@:-C01 C02 C03 C04 C05 C06 C07 C08 C09 C10 C11 C12 C13 C14 C15 C16 C17 C18 C19 C20}
for P in $IDS; do
  S=$(date +%s)
  OUT=$(VERIF_EVIDENCE_DIR=/tmp/thor_ev_$$ ./check $P --tier thorough 2>&1)
  echo "$P rc=$? $(( $(date +%s) - S ))s $(echo "$OUT" | grep -E 'VIOLATION|MACHINERY|KNOWN-FINDING' | cut -c1-200 | tr '\n' ' ') $(echo "$OUT" | tail -1 | cut -c1-220)"
done
rm -rf /tmp/thor_ev_$$
