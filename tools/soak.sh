#!/bin/sh
# tools/soak.sh <seed>... : every check's quick command under other seeds on the unchanged tree; evidence goes to a scratch directory.
# Any line with VIOLATION or MACHINERY-ERROR is a false alarm (or a new finding) to look into.
cd "$(dirname "$0")/.."
for S in "$@"; do
  for P in C01 C02 C03 C04 C05 C06 C07 C08 C09 C10 C11 C12 C13 C14 C15 C16 C17 C18 C19 C20; do
    OUT=$(VERIF_SEED=$S VERIF_EVIDENCE_DIR=/tmp/soak_ev_$$ ./check $P --tier quick 2>&1)
    echo "seed=$S $P rc=$? $(echo "$OUT" | grep -E 'VIOLATION|MACHINERY|KNOWN-FINDING' | cut -c1-160 | tr '\n' ' ') $(echo "$OUT" | tail -1 | cut -c1-200)"
  done
done
rm -rf /tmp/soak_ev_$$
