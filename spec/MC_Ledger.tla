----------------------------- MODULE MC_Ledger -----------------------------
(***************************************************************************)
(* The ledger of Rp2Ledger as a nondeterministic state machine, checked    *)
(* exhaustively by TLC over every history of a Gen_Hist slice, every       *)
(* accounting method / two-entry schedule, every order of serving          *)
(* same-instant events and every resolution of ties between equally        *)
(* ranked lots.                                                            *)
(*                                                                         *)
(* Phase "build" is Gen_Hist's GNext.  Start fixes the configuration.      *)
(* Then the taxable events are served in time order: Begin(e) picks any    *)
(* unserved event of the earliest unserved instant, Take(i) takes          *)
(* Min(left, rem[i]) from any best-ranked available lot (the prescribed    *)
(* fraction Frac), until the event is covered; Finish closes the run.      *)
(* Every step goes through the same TakeStep / DoneStep / ObsFails         *)
(* operators that judge real executions in Trace_Ledger, so the clause     *)
(* lists are checked for consistency with the prescriptive definitions     *)
(* (bad = {}), and the invariants below state C02, C04, C06, C07 on the    *)
(* design itself.                                                          *)
(***************************************************************************)
EXTENDS Gen_Hist

CONSTANTS SchedSet    \* which year->method schedules to explore: "single" | "pairs" | "all"

Singles == {<< <<1970, m>> >> : m \in Methods}
Pairs   == {<< <<1970, m1>>, <<2020, m2>> >> : m1 \in Methods, m2 \in Methods}
Scheds  == CASE SchedSet = "single" -> Singles [] SchedSet = "pairs" -> Pairs [] OTHER -> Singles \cup Pairs

VARIABLES phase,      \* "build" | "serve" | "stuck" | "done"
          c,          \* configuration chosen at Start
          ls,         \* ledger state
          bad         \* clauses of the specification that its own prescribed steps violated
vars == <<hist, ti, phase, c, ls, bad>>

E == Expand(hist)
A == 1..Len(E)
NoW(S) == {n \in S : SubSeq(n, 1, 2) # "W."}

Init == GInit /\ phase = "build" /\ c = [Q |-> 1] /\ ls = InitLS(<< >>) /\ bad = {}

Build == phase = "build" /\ GNext /\ UNCHANGED <<phase, c, ls, bad>>

\* Q: a common multiple of everything that can be a denominator
RECURSIVE LcmTo(_)
Gcd(a, b) == CHOOSE g \in 1..a : a % g = 0 /\ b % g = 0 /\ \A q \in (g + 1)..a : ~(a % q = 0 /\ b % q = 0)
Lcm(a, b) == (a * b) \div Gcd(a, b)
LcmTo(n) == IF n <= 1 THEN 1 ELSE Lcm(n, LcmTo(n - 1))
MaxDen == LET S == {Total(E[i]) : i \in A} \cup {E[i].amt : i \in A} IN IF S = {} THEN 1 ELSE Max(S)

Start == /\ phase = "build" /\ hist # << >>
         /\ \E s \in Scheds, country \in (IF Slice = "Y" THEN {"us", "jp"} ELSE {"us"}) :
              c' = [Q |-> LcmTo(MaxDen), sched |-> s, country |-> country, ltcg |-> 0, band |-> 0]
         /\ ls' = InitLS(E)
         /\ phase' = "serve"
         /\ UNCHANGED <<hist, ti, bad>>

Served   == IF ls.pend = 0 THEN ls.done ELSE ls.done \cup {ls.pend}
Unserved == Events(E, A) \ Served
Earliest == {e \in Unserved : \A f \in Unserved : E[e].t <= E[f].t}

\* begin an event and take its first fraction (an income event is a single lot-less fraction)
BeginTake(e) ==
  /\ phase = "serve" /\ (ls.pend = 0 \/ ls.left = 0) /\ e \in Earliest
  /\ IF IsEarn(E[e])
     THEN LET r == TakeStep(c, E, A, ls, Frac(c, E, e, 0, E[e].amt) @@ [ex |-> TRUE])
          IN ls' = r.st /\ bad' = bad \cup NoW(r.fails) /\ phase' = phase
     ELSE LET B == Best(c.sched, E, A, ls.rem, E[e])
          IN IF B = {} THEN phase' = "stuck" /\ UNCHANGED <<ls, bad>>
             ELSE \E i \in B :
                    LET r == TakeStep(c, E, A, ls, Frac(c, E, e, i, Min({Total(E[e]), ls.rem[i]})) @@ [ex |-> TRUE])
                    IN ls' = r.st /\ bad' = bad \cup NoW(r.fails) /\ phase' = phase
  /\ UNCHANGED <<hist, ti, c>>

\* continue the pending event from another lot
Take ==
  /\ phase = "serve" /\ ls.pend # 0 /\ ls.left > 0
  /\ LET e == ls.pend
         B == Best(c.sched, E, A, ls.rem, E[e])
     IN IF B = {} THEN phase' = "stuck" /\ UNCHANGED <<ls, bad>>
        ELSE \E i \in B :
               LET r == TakeStep(c, E, A, ls, Frac(c, E, e, i, Min({ls.left, ls.rem[i]})) @@ [ex |-> TRUE])
               IN ls' = r.st /\ bad' = bad \cup NoW(r.fails) /\ phase' = phase
  /\ UNCHANGED <<hist, ti, c>>

\* what a correct run reports about itself: the observation derived from the final state
SelfObs ==
  LET n  == Len(hist)
      fr == ls.fracs
      L  == Ledger(E, A, MaxDay, 0)
      lotsAmt  == Sum(Lots(E, A), LAMBDA i : E[i].amt)
      lotsCost == Sum(Lots(E, A), LAMBDA i : LotCost(c.Q, E[i]))
  IN [k |-> n, from |-> MinDay, to |-> MaxDay, neg |-> FALSE, ex |-> TRUE,
      \* a history that overdraws an account is rejected, naming an overdrawn account (C08)
      status |-> IF L.neg = {} THEN "ok" ELSE "balance",
      acct   |-> IF L.neg = {} THEN 0 ELSE CHOOSE a \in L.neg : TRUE,
      fr     |-> [q \in 1..Len(fr) |-> FracTuple(fr[q])],
      ins    |-> SetToSeq({i \in A : E[i].cls = "in"}),
      outs   |-> SetToSeq({i \in A : E[i].cls = "out"}),
      intras |-> SetToSeq({i \in A : E[i].cls = "intra"}),
      tev    |-> SetToSeq(Events(E, A)),
      yr     |-> SetToSeq(Summary(E, ToSet(fr), 0)),
      bal    |-> SetToSeq({<<a, L.bal[a].acq, L.bal[a].sent, L.bal[a].recv, L.bal[a].fin>> : a \in DOMAIN L.bal}),
      ppu    |-> <<lotsCost, lotsAmt>>,
      lab    |-> [q \in 1..Len(fr) |-> Labels(fr, 1..Len(fr), q)],
      sold   |-> SetToSeq({<<i, E[i].amt - ls.rem[i]>> : i \in {j \in A : E[j].cls = "in"}})]

Finish ==
  /\ phase = "serve" /\ Unserved = {} /\ (ls.pend = 0 \/ ls.left = 0)
  /\ LET r == DoneStep(c, E, A, ls)
     IN /\ ls' = r.st
        /\ bad' = bad \cup NoW(r.fails) \cup NoW(ObsFails(c, E, Len(hist), Len(hist), r.st, SelfObs))
  /\ phase' = "done"
  /\ UNCHANGED <<hist, ti, c>>

Next == Build \/ Start \/ (\E e \in A : BeginTake(e)) \/ Take \/ Finish
Spec == Init /\ [][Next]_vars

---------------------------------------------------------------------------
FracsOfLot(i) == {q \in 1..Len(ls.fracs) : ls.fracs[q].lot = i}
FracsOfEv(e)  == {q \in 1..Len(ls.fracs) : ls.fracs[q].ev = e}

\* the prescriptive definitions never violate a clause of the clause lists
SelfConsistent == bad = {}

\* C02: no lot overspent, every served event fully covered, lots not younger than their event
Conservation ==
  phase \in {"serve", "done", "stuck"} =>
    /\ \A i \in Lots(E, A) :
         /\ 0 <= ls.rem[i] /\ ls.rem[i] <= E[i].amt
         /\ E[i].amt - ls.rem[i] = Sum(FracsOfLot(i), LAMBDA q : ls.fracs[q].amt)
    /\ \A e \in ls.done : Sum(FracsOfEv(e), LAMBDA q : ls.fracs[q].amt) = Total(E[e])
    /\ \A q \in 1..Len(ls.fracs) : ls.fracs[q].lot # 0 => E[ls.fracs[q].lot].t <= E[ls.fracs[q].ev].t

\* C02: the run gets stuck exactly on histories that are not covered; in particular a valid
\* history extended by the disposal of everything held (symbol All) completes
StuckIffUncovered ==
  /\ phase = "stuck" => ~Covered(E, A)
  /\ phase = "done" => Covered(E, A)

\* C04: the pieces add back to the whole
Reassembly ==
  phase \in {"serve", "done"} =>
    /\ \A e \in ls.done : Sum(FracsOfEv(e), LAMBDA q : ls.fracs[q].proc) = TaxFiat(c.Q, E[e])
    /\ \A i \in Lots(E, A) : ls.rem[i] = 0 =>
          Sum(FracsOfLot(i), LAMBDA q : ls.fracs[q].cost) = LotCost(c.Q, E[i])
    /\ \A q \in 1..Len(ls.fracs) : ls.fracs[q].gain = ls.fracs[q].proc - ls.fracs[q].cost

\* C07: what the accounts hold is what the lots have left
Reconcile ==
  phase = "done" =>
    LET L == Ledger(E, A, MaxDay, 0)
    IN Sum(DOMAIN L.bal, LAMBDA a : L.bal[a].fin) = Sum(Lots(E, A), LAMBDA i : ls.rem[i])

\* C01, restated over the result: replaying the fractions, no fraction passes over a better lot
RECURSIVE RemAt(_, _)
RemAt(i, q) == IF q = 0 THEN E[i].amt
               ELSE RemAt(i, q - 1) - (IF ls.fracs[q].lot = i THEN ls.fracs[q].amt ELSE 0)
PassedOverOnlyIfEmpty ==
  phase = "done" =>
    \A q \in 1..Len(ls.fracs) :
       LET f == ls.fracs[q]
           m == MethodFor(c.sched, Year(E[f.ev]))
       IN f.lot # 0 =>
            \A j \in Lots(E, A) : (E[j].t <= E[f.ev].t /\ Better(m, E[j], E[f.lot])) => RemAt(j, q - 1) = 0

\* C09 at the level of the design: results are only ever appended
AppendOnly == [][phase = "serve" => IsPrefix(ls.fracs, ls.fracs')]_vars
=============================================================================
