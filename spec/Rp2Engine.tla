------------------------------ MODULE Rp2Engine ------------------------------
(***************************************************************************)
(* The lot-matching algorithm of RP2 AS IMPLEMENTED (tax_engine's pairing  *)
(* loop, AccountingEngine, the candidate structures of                     *)
(* abstract_accounting_method and the four plugins' sort keys) - DESIGN.md *)
(* section 4.4 and Appendix A.  Unlike Rp2Ledger, which states what the    *)
(* properties say, this module reproduces how the code does it: the        *)
(* current event and lot, the two running amounts, the shared dictionary   *)
(* of partial amounts (a lot ABSENT from it is untouched; 0 means          *)
(* exhausted or "in flight" as current lot), and per schedule entry either *)
(* a scan window [from, to] (FIFO) or a heap used as a bag with duplicates *)
(* (LIFO, HIFO, LOFO), filled lazily up to the last lot acquired at or     *)
(* before the event.                                                       *)
(*                                                                         *)
(* TLC explores every valid history over a small alphabet (purchases,      *)
(* earn-typed acquisitions, disposals; equal instants; a year change with  *)
(* a two-entry schedule) and checks on the algorithm's OUTPUT what C01,    *)
(* C02 and C09 say (PickInv, Conservation, NoSpuriousFail, AppendOnly).    *)
(* It is never on the verdict path of a check (P2): its deterministic      *)
(* output, tie-breakers included, is compared with what the real           *)
(* compute_tax returns on the same histories, and a difference is reported *)
(* as model drift.  Repush = "always" is the code as it is; "if_larger"    *)
(* is the defect repaired by commit 0041f1c (the selected lot returns to   *)
(* the heap only when its amount exceeds the event's): TLC must refute it  *)
(* (sensitivity control).                                                  *)
(***************************************************************************)
EXTENDS Integers, Sequences, FiniteSets, TLC, SequencesExt, Json

CONSTANTS MaxTx,      \* bound on the length of a history
          Repush,     \* "always" | "if_larger"
          Scheds,     \* "single": one method for all years; "pairs": also every two-entry schedule changing at instant 3
          YearCheck   \* "instant_or_year": a new lot is sought when the instant advances or the local year changes (the code);
                      \* "instant_only": only when the instant advances (the defect repaired by f858ad6)

VARIABLES hist, m1, m2, pc, ei, L, ea, la, partial, heap, cto, cfrom, out
vars == <<hist, m1, m2, pc, ei, L, ea, la, partial, heap, cto, cfrom, out>>

Methods == {"fifo", "lifo", "hifo", "lofo"}
Times  == 1..3              \* instants 1 and 2 lie in the first year of the schedule; instant 3 is the turn of the year: written with
                            \* different UTC offsets, a transaction at instant 3 lies in the first or in the second local year (field yr)
Entry(e) == e.yr
MethodAt(e) == IF e.yr = 1 THEN m1 ELSE m2
Amts   == 1..2
Prices == 1..2
LastT  == IF hist = << >> THEN 1 ELSE hist[Len(hist)].t

---------------------------------------------------------------------------
(* input, derived: lots in chronological order (row order within one instant), taxable events  *)
(* sorted by instant with earn-typed acquisitions before disposals (stable merge of the sets)   *)
IsLot(x) == x.k \in {"buy", "earn"}
LotIdx == SelectSeq([i \in 1..Len(hist) |-> i], LAMBDA i : IsLot(hist[i]))
NLots  == Len(LotIdx)
Lot(i) == hist[LotIdx[i]]
EvIdx0 == SelectSeq([i \in 1..Len(hist) |-> i], LAMBDA i : hist[i].k \in {"earn", "out"})
Cls(i) == IF hist[i].k = "earn" THEN 0 ELSE 1
EvIdx  == SortSeq(EvIdx0, LAMBDA a, b : \/ hist[a].t < hist[b].t
                                        \/ hist[a].t = hist[b].t /\ Cls(a) < Cls(b)
                                        \/ hist[a].t = hist[b].t /\ Cls(a) = Cls(b) /\ a < b)
NEv    == Len(EvIdx)
Ev(i)  == hist[EvIdx[i]]

---------------------------------------------------------------------------
(* the plugins' full sort keys (primary rank, then the tie-breakers of the code)               *)
Less(Method, i, j) == \* lot i pops before lot j
  CASE Method = "lifo" -> Lot(i).t > Lot(j).t \/ (Lot(i).t = Lot(j).t /\ i > j)
    [] Method = "hifo" -> Lot(i).p > Lot(j).p \/ (Lot(i).p = Lot(j).p /\ (Lot(i).t < Lot(j).t \/ (Lot(i).t = Lot(j).t /\ i < j)))
    [] Method = "lofo" -> Lot(i).p < Lot(j).p \/ (Lot(i).p = Lot(j).p /\ (Lot(i).t < Lot(j).t \/ (Lot(i).t = Lot(j).t /\ i < j)))
    [] OTHER -> i < j
PartialOf(pt, i) == IF i \in DOMAIN pt THEN pt[i] ELSE Lot(i).amt

MinPos(Method, h) == CHOOSE k \in 1..Len(h) : \A m \in 1..Len(h) : m = k \/ ~Less(Method, h[m], h[k]) \/ (h[m] = h[k])
RemoveAtPos(h, k) == SubSeq(h, 1, k - 1) \o SubSeq(h, k + 1, Len(h))

\* feature-based seek: pop the minimum, drop lots whose partial amount is zero
RECURSIVE FSeek(_, _, _, _)
FSeek(Method, h, pt, E) ==
  IF h = << >> THEN [ok |-> FALSE, lot |-> 0, amt |-> 0, heap |-> h]
  ELSE LET k == MinPos(Method, h)
           i == h[k]
           h2 == RemoveAtPos(h, k)
           amt == PartialOf(pt, i)
       IN IF amt > 0 THEN [ok |-> TRUE, lot |-> i, amt |-> amt,
                           heap |-> IF Repush = "always" \/ amt > E THEN Append(h2, i) ELSE h2]
          ELSE FSeek(Method, h2, pt, E)
\* chronological seek (FIFO): scan the window, advancing its start over exhausted lots
RECURSIVE CSeek(_, _, _)
CSeek(f, t, pt) ==
  IF f > t THEN [ok |-> FALSE, lot |-> 0, amt |-> 0, from |-> f]
  ELSE IF PartialOf(pt, f) > 0 THEN [ok |-> TRUE, lot |-> f, amt |-> PartialOf(pt, f), from |-> f]
  ELSE CSeek(f + 1, t, pt)

ToIndex(e) == LET S == {i \in 1..NLots : Lot(i).t <= e.t} IN IF S = {} THEN 0 ELSE CHOOSE i \in S : \A j \in S : j <= i
PushRange(h, a, b) == h \o [k \in 1..(b - a + 1) |-> a + k - 1]

\* AccountingEngine.get_acquired_lot_for_taxable_event
SeekRes(e, eaIn, laIn, pt, h, ct, cf) ==
  LET E  == eaIn - laIn
      to == ToIndex(e)
      c  == Entry(e)
      Method == MethodAt(e)
  IN IF to = 0 THEN [ok |-> FALSE]
     ELSE IF Method = "fifo" THEN
            LET r == CSeek(cf[c], to, pt)
            IN IF r.ok THEN [ok |-> TRUE, lot |-> r.lot, ea |-> E, la |-> r.amt, pt |-> (r.lot :> 0) @@ pt, heap |-> h,
                             cto |-> [ct EXCEPT ![c] = to], cfrom |-> [cf EXCEPT ![c] = r.from]]
               ELSE [ok |-> FALSE]
          ELSE
            \* set_to_index pushes the lots old_to .. to (the old bound once more), then the plugin pops
            LET h1 == PushRange(h[c], IF ct[c] = 0 THEN 1 ELSE ct[c], to)
                r  == FSeek(Method, h1, pt, E)
            IN IF r.ok THEN [ok |-> TRUE, lot |-> r.lot, ea |-> E, la |-> r.amt, pt |-> (r.lot :> 0) @@ pt,
                             heap |-> [h EXCEPT ![c] = r.heap], cto |-> [ct EXCEPT ![c] = to], cfrom |-> cf]
               ELSE [ok |-> FALSE]

\* AccountingEngine.get_next_taxable_event_and_amount
NextEv(i, l, eaIn, laIn, pt, h, ct, cf) ==
  LET la2 == IF l # 0 THEN laIn - eaIn ELSE 0
  IN IF i + 1 > NEv THEN [st |-> "done"]
     ELSE LET e2  == Ev(i + 1)
              ea2 == e2.amt
          IN IF i # 0 /\ (Ev(i).t < e2.t \/ (YearCheck = "instant_or_year" /\ Entry(Ev(i)) # Entry(e2))) THEN
               LET pt2 == IF l # 0 THEN (l :> la2) @@ pt ELSE pt
                   s   == SeekRes(e2, ea2, la2, pt2, h, ct, cf)
               IN IF s.ok THEN [st |-> "ok", ei |-> i + 1, L |-> s.lot, ea |-> ea2, la |-> s.la, pt |-> s.pt, heap |-> s.heap, cto |-> s.cto, cfrom |-> s.cfrom]
                  ELSE [st |-> "fail"]
             ELSE [st |-> "ok", ei |-> i + 1, L |-> l, ea |-> ea2, la |-> la2, pt |-> pt, heap |-> h, cto |-> ct, cfrom |-> cf]

\* tax_engine._get_next_taxable_event_and_acquired_lot
NextEvAndLot(i, l, eaIn, laIn, pt, h, ct, cf) ==
  LET n == NextEv(i, l, eaIn, laIn, pt, h, ct, cf)
  IN IF n.st # "ok" THEN n
     ELSE IF n.L = l THEN
            LET s == SeekRes(Ev(n.ei), n.ea, n.la, n.pt, n.heap, n.cto, n.cfrom)
            IN IF s.ok THEN [n EXCEPT !.L = s.lot, !.la = s.la, !.pt = s.pt, !.heap = s.heap, !.cto = s.cto, !.cfrom = s.cfrom]
               ELSE [st |-> "fail"]
          ELSE n

Apply(n) == IF n.st = "done" THEN pc' = "done" /\ UNCHANGED <<ei, L, ea, la, partial, heap, cto, cfrom>>
            ELSE IF n.st = "fail" THEN pc' = "fail" /\ UNCHANGED <<ei, L, ea, la, partial, heap, cto, cfrom>>
            ELSE pc' = "loop" /\ ei' = n.ei /\ L' = n.L /\ ea' = n.ea /\ la' = n.la /\ partial' = n.pt /\ heap' = n.heap /\ cto' = n.cto /\ cfrom' = n.cfrom

---------------------------------------------------------------------------
Init == /\ hist = << >> /\ pc = "build" /\ ei = 0 /\ L = 0 /\ ea = 0 /\ la = 0 /\ partial = << >>
        /\ heap = << << >>, << >> >> /\ cto = <<0, 0>> /\ cfrom = <<1, 1>> /\ out = << >>
        /\ m1 \in Methods /\ m2 \in Methods /\ (Scheds = "single" => m1 = m2)

Holdings == FoldSeq(LAMBDA x, acc : IF IsLot(x) THEN acc + x.amt ELSE acc - x.amt, 0, hist)

\* only valid histories are built: a disposal never exceeds what is held when it happens
Build == /\ pc = "build" /\ Len(hist) < MaxTx
         /\ \E t \in Times, k \in {"buy", "earn", "out"}, amt \in Amts, p \in Prices, yr \in 1..2 :
              /\ t >= LastT
              /\ (t < 3 => yr = 1) /\ (k = "buy" => yr = (IF t < 3 THEN 1 ELSE 2))      \* (the year of a purchase plays no part)
              /\ (k = "out" => p = 1 /\ amt <= Holdings)
              /\ hist' = Append(hist, [k |-> k, t |-> t, amt |-> amt, p |-> p, yr |-> yr])
         /\ UNCHANGED <<m1, m2, pc, ei, L, ea, la, partial, heap, cto, cfrom, out>>

Start == /\ pc = "build" /\ hist # << >> /\ NEv > 0
         /\ Apply(NextEvAndLot(0, 0, 0, 0, partial, heap, cto, cfrom))
         /\ UNCHANGED <<hist, m1, m2, out>>

\* one iteration of the while loop of tax_engine._create_unfiltered_gain_and_loss_set
Step == /\ pc = "loop"
        /\ LET e == Ev(ei) IN
           IF e.k = "earn" THEN
              /\ out' = Append(out, [ev |-> EvIdx[ei], lot |-> 0, amt |-> ea])
              /\ Apply(NextEv(ei, L, 0, la, partial, heap, cto, cfrom))
           ELSE IF ea = la THEN
              /\ out' = Append(out, [ev |-> EvIdx[ei], lot |-> L, amt |-> ea])
              /\ Apply(NextEvAndLot(ei, L, ea, la, partial, heap, cto, cfrom))
           ELSE IF ea < la THEN
              /\ out' = Append(out, [ev |-> EvIdx[ei], lot |-> L, amt |-> ea])
              /\ Apply(NextEv(ei, L, ea, la, partial, heap, cto, cfrom))
           ELSE
              /\ out' = Append(out, [ev |-> EvIdx[ei], lot |-> L, amt |-> la])
              /\ LET s == SeekRes(e, ea, la, partial, heap, cto, cfrom) IN
                 IF s.ok THEN pc' = "loop" /\ ei' = ei /\ L' = s.lot /\ ea' = s.ea /\ la' = s.la /\ partial' = s.pt /\ heap' = s.heap /\ cto' = s.cto /\ cfrom' = s.cfrom
                 ELSE pc' = "fail" /\ UNCHANGED <<ei, L, ea, la, partial, heap, cto, cfrom>>
        /\ UNCHANGED <<hist, m1, m2>>

Next == Build \/ Start \/ Step
Spec == Init /\ [][Next]_vars

---------------------------------------------------------------------------
(* what the properties say, evaluated on the output                                          *)
Better(Method, i, j) == CASE Method = "fifo" -> Lot(i).t < Lot(j).t
                          [] Method = "lifo" -> Lot(i).t > Lot(j).t
                          [] Method = "hifo" -> Lot(i).p > Lot(j).p
                          [] Method = "lofo" -> Lot(i).p < Lot(j).p
Taken(i, n) == FoldSeq(LAMBDA f, acc : IF f.lot = i THEN acc + f.amt ELSE acc, 0, SubSeq(out, 1, n))
RemBefore(i, n) == Lot(i).amt - Taken(i, n - 1)
GoodPick(n) == LET f == out[n]
                   e == hist[f.ev]
               IN f.lot = 0 \/ ( /\ Lot(f.lot).t <= e.t /\ RemBefore(f.lot, n) >= f.amt /\ f.amt > 0
                                 /\ \A j \in 1..NLots : (Lot(j).t <= e.t /\ RemBefore(j, n) > 0) => ~Better(MethodAt(e), j, f.lot) )
\* C01 (and the per-fraction half of C02): no fraction passes over a better-ranked available lot
PickInv == \A n \in 1..Len(out) : GoodPick(n)
\* C02: valid histories are never rejected
NoSpuriousFail == pc # "fail"
\* C02: when the run ends every taxable event is covered in full, income events once with their full amount
EventsCovered ==
  pc = "done" =>
    \A k \in 1..NEv :
       LET fs == SelectSeq(out, LAMBDA f : f.ev = EvIdx[k])
       IN /\ FoldSeq(LAMBDA f, acc : acc + f.amt, 0, fs) = Ev(k).amt
          /\ (Ev(k).k = "earn" => Len(fs) = 1 /\ fs[1].lot = 0)
\* C09 at the level of the algorithm: fractions are only ever appended
AppendOnly == [][IsPrefix(out, out')]_vars
\* bookkeeping behind the above: between iterations every lot inside the window that still has an amount and is not
\* the current lot is still a candidate of the entry in force (this is the invariant the repaired defect broke)
HeapComplete ==
  pc = "loop" =>
    LET c == Entry(Ev(ei)) IN
    MethodAt(Ev(ei)) # "fifo" =>
      \A j \in 1..cto[c] : (j # L /\ PartialOf(partial, j) > 0) => \E k \in 1..Len(heap[c]) : heap[c][k] = j

\* the deterministic result for a finished run, printed once so that the harness compares it with the real compute_tax
Emit == pc \notin {"done", "fail"} \/ PrintT("E|" \o ToJson([h |-> hist, m1 |-> m1, m2 |-> m2, out |-> out, pc |-> pc]))
=============================================================================
