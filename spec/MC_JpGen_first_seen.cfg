CONSTANTS NAssets = 2 Design = "first_seen"
INIT Init
NEXT Next
INVARIANT ChainRight
CHECK_DEADLOCK FALSE
