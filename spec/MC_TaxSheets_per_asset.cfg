CONSTANTS NAssets = 3 Design = "per_asset_counter"
INIT Init
NEXT Next
INVARIANT NoRowLost
CHECK_DEADLOCK FALSE
