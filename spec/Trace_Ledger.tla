---------------------------- MODULE Trace_Ledger ----------------------------
(***************************************************************************)
(* Trace validation: executions recorded from the real rp2 (compute_tax    *)
(* at API level, or parse_ods + compute_tax on a generated spreadsheet)    *)
(* must be behaviours of Rp2Ledger.  One TLC run judges a whole batch:     *)
(* one behaviour per trace (initial states tid \in 1..N), one line per     *)
(* step, total verdicts (DESIGN.md P5): every line is consumed and the     *)
(* named clauses that did not hold are accumulated, first line per clause. *)
(*                                                                         *)
(* A trace is [c, h, m, lines]: c the configuration [Q, sched, period,     *)
(* band], h the history as given to the code (time-ordered), m the prefix  *)
(* length of the reference run, lines the observations:                    *)
(*   Take  one fraction of the reference run, in the order reported        *)
(*   Done  the reference run ended normally                                *)
(*   Obs   what another run on the same history reported (ObsFails)        *)
(***************************************************************************)
EXTENDS Rp2Ledger, Json, IOUtils, TLCExt

Traces == JsonDeserialize(IOEnv.TRACE_FILE)
N      == Len(Traces)
Exp    == [k \in 1..N |-> Expand(Traces[k].h)]

VARIABLES tid, l, ls, fails
vars == <<tid, l, ls, fails>>

Tr    == Traces[tid]
E     == Exp[tid]
Lines == Tr.lines

Init == /\ tid \in 1..N
        /\ l = 1
        /\ ls = InitLS(Exp[tid])
        /\ fails = {}

\* keep, per clause, the first line at which it failed
Merge(old, names, line) ==
  old \cup {<<c, line>> : c \in {cc \in names : \A p \in old : p[1] # cc}}

Step ==
  /\ l <= Len(Lines)
  /\ LET ln == Lines[l]
         n  == Len(Tr.h)
         A  == Active(E, n, Tr.m)
     IN CASE ln.a = "Take" ->
               LET r == TakeStep(Tr.c, E, A, ls, ln)
               IN ls' = r.st /\ fails' = Merge(fails, r.fails, l)
          [] ln.a = "Done" ->
               LET r == DoneStep(Tr.c, E, A, ls)
               IN ls' = r.st /\ fails' = Merge(fails, r.fails, l)
          [] ln.a = "Obs" ->
               ls' = ls /\ fails' = Merge(fails, ObsFails(Tr.c, E, n, Tr.m, ls, ln), l)
          [] OTHER ->
               ls' = ls /\ fails' = Merge(fails, {"S.unknown_line_kind"}, l)
  /\ l' = l + 1
  /\ UNCHANGED tid

Spec == Init /\ [][Step]_vars

\* printed exactly once per trace, when its last line has been consumed
\* (a single string, so that TLC prints it on one line whatever its length)
Verdict == (l = Len(Lines) + 1) => PrintT("V|" \o ToString(tid) \o "|" \o ToJson(fails))
=============================================================================
