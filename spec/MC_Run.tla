-------------------------------- MODULE MC_Run --------------------------------
(***************************************************************************)
(* The option matrix of Rp2Run, enumerated by TLC: country x method x      *)
(* language x date-filter shape x schedule x fault class.  Each state is   *)
(* one option tuple; TLC checks sanity invariants of the product constants *)
(* and prints every tuple with the verdict of Supported / FreeCase, so     *)
(* that the harness concretises it (dates, inputs) and runs the entry      *)
(* point.                                                                  *)
(***************************************************************************)
EXTENDS Rp2Run, Json

CONSTANT WithFaults      \* TRUE: cross the matrix with the fault classes (C12, C18); FALSE: valid input only (C16)
VARIABLE r
Langs   == {"", "en", "ja", "es", "en_IE", "kl", "fr"}
Shapes  == {"none", "from", "to", "fromto", "inverted"}
Scheds  == {"none", "single1970", "singlemin", "two", "three", "uncovered"}
Faults  == {"", "sheet_missing_end", "sheet_nested", "sheet_repeated", "sheet_data_outside", "sheet_empty_in", "field_unknown_exchange",
            "field_no_timezone", "field_bad_type", "field_zero_amount", "field_non_numeric", "field_asset_mismatch", "field_received_gt_sent",
            "config_missing_section", "config_bad_column", "config_duplicate_column", "config_unknown_section", "config_no_assets",
            "config_json", "config_not_ini", "config_bom", "input_not_a_spreadsheet", "asset_without_sheet", "option_unknown_asset", "option_asset_wrong_case",
            "sheet_missing_end_last_asset", "field_unknown_exchange_last_asset", "field_zero_amount_last_asset", "overdraft", "overspend", "bad_date_option", "unknown_option", "missing_input_file"}

\* what the data directory of the pinned product ships (observed again by the harness at run time)
ShippedOf(c) == CASE c = "us" -> {"en"} [] c = "jp" -> {"en", "kl", "ja"} [] c = "es" -> {"es"} [] c = "ie" -> {"en_IE"} [] OTHER -> {"en"}

Init == r \in [country : Countries, method : AllMethods \cup {""}, lang : Langs, shape : Shapes, sched : Scheds, fault : (IF WithFaults THEN Faults ELSE {""}), neg : BOOLEAN]
Next == UNCHANGED r

AsRun == [country |-> r.country, method |-> r.method, lang |-> r.lang,
          from |-> IF r.shape \in {"from", "fromto"} THEN 100 ELSE IF r.shape = "inverted" THEN 500 ELSE NoDay,
          to   |-> IF r.shape \in {"to", "fromto"} THEN 400 ELSE IF r.shape = "inverted" THEN 100 ELSE NoTo,
          neg |-> r.neg, prefix |-> "",
          \* (the harness varies the methods of the entries among those the country accepts)
          sched |-> CASE r.sched = "none" -> << >> [] r.sched = "single1970" -> << <<1970, "fifo">> >> [] r.sched = "singlemin" -> << <<2019, "fifo">> >>
                      [] r.sched = "two" -> << <<1970, "fifo">>, <<2020, "fifo">> >> [] r.sched = "uncovered" -> << <<2021, "fifo">> >>
                      [] OTHER -> << <<2019, "fifo">>, <<2020, "fifo">>, <<2021, "fifo">> >>,
          shipped |-> ShippedOf(r.country), fault |-> r.fault, pre |-> << >>, minyear |-> 2019]

\* sanity of the product description
DefaultsAreSupported == \A c \in Countries : DefaultMethod(c) \in AcceptedMethods(c) /\ DefaultLang(c) \in ShippedOf(c)
ReportsNamedApart    == Cardinality(Expected(AsRun)) = Cardinality(Generators(r.country))

Emit == PrintT("R|" \o ToJson(r) \o "|" \o (IF FreeCase(AsRun) THEN "free" ELSE IF Supported(AsRun) THEN "supported" ELSE "unsupported"))
=============================================================================
