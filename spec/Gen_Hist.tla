------------------------------ MODULE Gen_Hist ------------------------------
(***************************************************************************)
(* Generator machine: every reachable state is one transaction history     *)
(* over the alphabet of a named slice (DESIGN.md section 6, G-exh/G-sim).  *)
(* TLC enumerates the histories exhaustively to MaxTx transactions (the    *)
(* space is closed under prefixes) or samples long ones with -simulate;    *)
(* the invariant Emit prints each history, and the harness concretises it  *)
(* and runs the real rp2 on it.  MC_Ledger extends this module, so the     *)
(* design is model-checked over exactly the histories that are replayed    *)
(* into the code.                                                          *)
(***************************************************************************)
EXTENDS Rp2Ledger, Json

CONSTANTS Slice,    \* name of the alphabet
          MaxTx,    \* bound on the length of a history
          Mode,     \* "valid": only histories that are covered and never overdrawn; "covered": covered, accounts may be overdrawn; "any": all
          EmitFrom  \* print histories of at least this length (1: all; MaxTx: only complete ones, for -simulate)

VARIABLES hist, ti
gvars == <<hist, ti>>

Sy(cls, type, amt, fee, price, a1, a2) ==
  [cls |-> cls, type |-> type, amt |-> amt, fee |-> fee, price |-> price, a1 |-> a1, a2 |-> a2,
   ffee |-> 0, vin |-> -1, vwf |-> -1, vout |-> -1, vfee |-> -1]
At(d, s) == d * 86400 + s         \* day index relative to 2019-01-01, second of the day
Noon == 43200
All == -1                         \* amount marker: everything currently held

---------------------------------------------------------------------------
(* A: pairing core - one account, purchases / income / sales, amounts and  *)
(* prices 1..2 (ties frequent), same instant / next day / across new year  *)
SymA  == {Sy("in", ty, a, 0, p, 11, 0) : ty \in {"buy", "interest"}, a \in 1..2, p \in 1..2}
         \cup {Sy("out", "sell", a, 0, 1, 11, 0) : a \in {All, 1, 2}}
InstA == <<At(363, Noon), At(364, Noon), At(366, Noon)>>

(* B: fees and transfers - fee-typed out, out with crypto fee, transfer    *)
(* with and without fee, purchase with fiat fee; two accounts of one       *)
(* holder; one price                                                       *)
SymB  == {Sy("in", "buy", a, 0, 2, 11, 0) : a \in 2..3}
         \cup {[Sy("in", "buy", 2, 0, 2, 11, 0) EXCEPT !.ffee = 1]}
         \cup {Sy("in", "mining", 1, 0, 2, 21, 0), [Sy("in", "staking", 1, 0, 2, 11, 0) EXCEPT !.ffee = 1]}
         \cup {Sy("out", "sell", 1, f, 2, 11, 0) : f \in 0..1}
         \cup {Sy("out", "fee", 0, 1, 2, 11, 0), Sy("out", "sell", All, 0, 2, 11, 0)}
         \cup {Sy("intra", "move", 2, f, 2, 11, 21) : f \in 0..1}
         \cup {Sy("intra", "move", 1, 0, 2, 21, 11)}
InstB == <<At(100, Noon), At(101, Noon), At(500, Noon)>>

(* C: time zones - three UTC offsets, instants one second apart around     *)
(* new year, so that local year and UTC order disagree                     *)
SymC  == {Sy("in", ty, 1, 0, p, 11, 0) : ty \in {"buy", "staking"}, p \in 1..2}
         \cup {Sy("out", "sell", 1, 0, 1, 11, 0)}
InstC == <<At(364, 57600), At(364, 86399), At(365, 0), At(365, 1)>>
OffC  == {0, 32400, -18000}

(* D: three-valued amounts and prices                                      *)
SymD  == {Sy("in", ty, a, 0, p, 11, 0) : ty \in {"buy", "airdrop"}, a \in 1..3, p \in 1..3}
         \cup {Sy("out", "sell", a, 0, 1, 11, 0) : a \in {All, 1, 2, 3}}
InstD == <<At(363, Noon), At(364, Noon), At(800, Noon)>>

(* T: type-complete - every transaction type in every table that takes it  *)
SymT  == {Sy("in", ty, 2, 0, 2, 11, 0) : ty \in InTypes}
         \cup {Sy("out", ty, 1, 0, 3, 11, 0) : ty \in OutTypes \ {"fee"}}
         \cup {Sy("out", "fee", 0, 1, 3, 11, 0)}
         \cup {Sy("intra", "move", 1, f, 3, 11, 21) : f \in 0..1}
         \cup {Sy("intra", "move", 2, 1, 3, 11, 11)}                      \* a transfer to the same account whose fee is still disposed of
         \cup {Sy("out", "sell", 1, 0, 3, 21, 0)}
InstT == <<At(200, Noon), At(201, Noon)>>

(* M: several exchanges and holders (joint filing), transfers between all  *)
(* pairs, self-transfer included; used with Mode "any" for overdrafts      *)
AcctM == {11, 21, 12}
SymM  == {Sy("in", "buy", a, 0, 1, ac, 0) : a \in 1..2, ac \in AcctM}
         \cup {Sy("in", "wages", 1, 0, 1, 12, 0)}
         \cup {Sy("out", "sell", 1, f, 1, ac, 0) : f \in 0..1, ac \in AcctM}
         \cup {Sy("intra", "move", a, 0, 1, s, d) : a \in 1..2, s \in AcctM, d \in AcctM}
         \cup {Sy("intra", "move", 2, 1, 1, 11, 21), Sy("intra", "move", 2, 1, 1, 12, 12)}
InstM == <<At(100, 32400), At(100, 61200), At(101, 32400), At(102, Noon)>>   \* two instants within one day: transient overdrafts

(* Y: several calendar years and holding periods on both sides of one year *)
SymY  == {Sy("in", ty, 2, 0, p, 11, 0) : ty \in {"buy", "interest"}, p \in 1..2}
         \cup {Sy("out", ty, a, 0, 3, 11, 0) : ty \in {"sell", "gift"}, a \in {1, 3}}
         \cup {Sy("out", "sell", All, 0, 3, 11, 0), Sy("intra", "move", 2, 1, 3, 11, 21)}
         \cup {Sy("out", "sell", 1, 0, 2, 11, 0)}                  \* sold at the purchase price of a lot: a fraction, and possibly a yearly line, with zero gain
InstY == <<At(59, Noon), At(243, Noon), At(426, Noon), At(640, Noon), At(794, Noon), At(1110, Noon)>>

(* V: exchange-supplied fiat values next to computed ones                  *)
SymV  == {Sy("in", "buy", 2, 0, 2, 11, 0),
          [Sy("in", "buy", 2, 0, 2, 11, 0) EXCEPT !.vin = 5],
          [Sy("in", "buy", 3, 0, 2, 11, 0) EXCEPT !.vin = 5, !.vwf = 7],
          [Sy("in", "buy", 2, 0, 2, 11, 0) EXCEPT !.ffee = 1, !.vwf = 6],
          [Sy("in", "income", 2, 0, 2, 11, 0) EXCEPT !.vin = 3],
          [Sy("in", "interest", 2, 0, 2, 11, 0) EXCEPT !.ffee = 1],         \* income received against a fee
          [Sy("in", "mining", 2, 0, 2, 11, 0) EXCEPT !.vin = 3, !.vwf = 5],
          Sy("out", "sell", 1, 1, 3, 11, 0),
          [Sy("out", "sell", 3, 0, 3, 11, 0) EXCEPT !.vout = 10],
          [Sy("out", "sell", 1, 1, 3, 11, 0) EXCEPT !.vout = 4, !.vfee = 2],
          [Sy("out", "fee", 0, 2, 3, 11, 0) EXCEPT !.vfee = 5],
          [Sy("out", "sell", 1, 1, 3, 11, 0) EXCEPT !.vfee = 2],          \* fee value supplied, sale value computed
          [Sy("in", "buy", 2, 0, 2, 11, 0) EXCEPT !.vwf = 7],              \* value with fee supplied, value without fee computed
          Sy("out", "donate", All, 0, 3, 11, 0)}
InstV == <<At(100, Noon), At(101, Noon), At(600, Noon)>>

(* F: acquisitions with a crypto fee (spreadsheet input only): the artificial fee-only     *)
(* disposal of C11 takes part in lot matching and balances                                *)
SymF  == {[Sy("in", "buy", a, f, 2, 11, 0) EXCEPT !.vin = v] : a \in 2..3, f \in 0..1, v \in {-1, 7}}
         \cup {Sy("in", "interest", 2, 0, 3, 11, 0), Sy("in", "buy", 2, 1, 1, 21, 0)}
         \cup {Sy("out", "sell", a, 0, 2, 11, 0) : a \in {All, 1}}
         \cup {Sy("out", "gift", 1, 1, 2, 11, 0), Sy("intra", "move", 2, 1, 2, 11, 21)}
InstF == <<At(150, Noon), At(151, Noon), At(600, Noon)>>

(* Z: one non-UTC offset for the whole history (-5 h or +9 h) and instants within a few   *)
(* hours of midnight UTC, so that every transaction's own calendar date (and, at new      *)
(* year, its year) differs from its UTC date; two accounts, income, transfers             *)
SymZ  == {Sy("in", ty, 2, 0, p, 11, 0) : ty \in {"buy", "interest"}, p \in 1..2}
         \cup {Sy("out", ty, 1, 0, 3, 11, 0) : ty \in {"sell", "gift"}}
         \cup {Sy("out", "sell", All, 0, 3, 11, 0), Sy("intra", "move", 1, 0, 3, 11, 21), Sy("intra", "move", 2, 1, 3, 11, 21)}
InstZ == <<At(300, 3600), At(300, 79200), At(301, 79200), At(365, 3600), At(365, 79200), At(500, 3600)>>
OffZ  == {-18000, 32400}

(* W: wall-clock order against instant order - purchases at two prices and unit sales, four instants within eight hours   *)
(* around new year, three UTC offsets: the written time of day of a later transaction can precede that of an earlier one   *)
SymW  == {Sy("in", "buy", 1, 0, p, 11, 0) : p \in 1..2} \cup {Sy("out", "sell", 1, 0, 1, 11, 0)}
InstW == InstC
OffW  == OffC

(* P: holding periods on the boundary - one second before, on and after 1 day, 365 days and 366 days after an acquisition  *)
(* (the span from 2019-03-01 contains 29 February 2020), written in three UTC offsets so that calendar dates disagree    *)
(* with elapsed time                                                                                                      *)
SymP  == {Sy("in", "buy", 1, 0, 1, 11, 0), Sy("in", "buy", 2, 0, 2, 11, 0), Sy("out", "sell", 1, 0, 3, 11, 0), Sy("out", "sell", All, 0, 3, 11, 0)}
InstP == <<At(59, Noon), At(60, Noon - 1), At(60, Noon), At(60, Noon + 1),
           At(424, Noon - 1), At(424, Noon), At(424, Noon + 1), At(425, Noon - 1), At(425, Noon), At(425, Noon + 1)>>

(* O: one account drawn below zero step by step while another account holds enough to cover every disposal (the history *)
(* never overspends, it only overdraws): purchases on two accounts, unit sales on the first; used with Mode "covered" and  *)
(* with units below the 1e-10 tolerance, so that single debits stay inside the tolerance and their sum leaves it         *)
SymO  == {Sy("in", "buy", 3, 0, 1, 21, 0), Sy("in", "buy", 1, 0, 1, 11, 0), Sy("out", "sell", 1, 0, 1, 11, 0)}
InstO == <<At(100, Noon), At(101, Noon), At(102, Noon)>>

Symbols  == CASE Slice = "O" -> SymO [] Slice = "P" -> SymP [] Slice = "W" -> SymW [] Slice = "A" -> SymA [] Slice = "B" -> SymB [] Slice = "C" -> SymC [] Slice = "D" -> SymD
              [] Slice = "T" -> SymT [] Slice = "M" -> SymM [] Slice = "Y" -> SymY [] Slice = "V" -> SymV
              [] Slice = "F" -> SymF [] Slice = "Z" -> SymZ
Instants == CASE Slice = "O" -> InstO [] Slice = "P" -> InstP [] Slice = "W" -> InstW [] Slice = "A" -> InstA [] Slice = "B" -> InstB [] Slice = "C" -> InstC [] Slice = "D" -> InstD
              [] Slice = "T" -> InstT [] Slice = "M" -> InstM [] Slice = "Y" -> InstY [] Slice = "V" -> InstV
              [] Slice = "F" -> InstF [] Slice = "Z" -> InstZ
Offs     == IF Slice \in {"C", "W", "P"} THEN OffC
            ELSE IF Slice = "Z" THEN (IF hist = << >> THEN OffZ ELSE {hist[1].off})
            ELSE {0}

---------------------------------------------------------------------------
Holding(h) == LET E == Expand(h)
              IN Sum({i \in 1..Len(E) : IsIn(E[i])}, LAMBDA i : E[i].amt)
                 - Sum({i \in 1..Len(E) : IsDisposal(E[i])}, LAMBDA i : Total(E[i]))

\* a history the properties call valid: every disposal covered, no account ever overdrawn
Valid(h) == LET E == Expand(h)
                A == 1..Len(E)
            IN Covered(E, A) /\ Ledger(E, A, MaxDay, 0).neg = {} /\ ~SameInstantChain(E, A)

GInit == hist = << >> /\ ti = 1

GNext ==
  /\ Len(hist) < MaxTx
  /\ \E s \in Symbols, k \in ti..Len(Instants), off \in Offs :
       LET amt == IF s.amt = All THEN Holding(hist) ELSE s.amt
           x   == [s EXCEPT !.amt = amt] @@ [t |-> Instants[k], off |-> off, par |-> 0]
           h2  == Append(hist, x)
       IN /\ amt > 0 \/ (s.amt = 0 /\ s.type = "fee")
          /\ (s.cls = "intra" => amt > s.fee \/ (amt = s.fee /\ s.fee > 0))
          /\ Mode = "valid" => Valid(h2)
          /\ Mode = "any" => ~SameInstantChain(Expand(h2), 1..Len(Expand(h2)))
          /\ Mode = "covered" => (Covered(Expand(h2), 1..Len(Expand(h2))) /\ ~SameInstantChain(Expand(h2), 1..Len(Expand(h2))))
          /\ hist' = h2
          /\ ti' = k

GSpec == GInit /\ [][GNext]_gvars

\* printed once per distinct history (a single string, so that it stays on one line)
Emit == Len(hist) < EmitFrom \/ hist = << >> \/ PrintT("H|" \o ToJson(hist))
=============================================================================
