INIT Init
NEXT Step
INVARIANT Verdict
CHECK_DEADLOCK FALSE
