----------------------------- MODULE Ind_Pairing -----------------------------
(***************************************************************************)
(* The pairing loop of tax_engine._create_unfiltered_gain_and_loss_set     *)
(* with UNBOUNDED amounts: the two running amounts (what is left of the    *)
(* current taxable event, what is left of the current lot) and the three   *)
(* branches of the loop (equal / event smaller / lot smaller).  TLC        *)
(* explores Rp2Engine with amounts 1..2; this module removes that bound:   *)
(* IndInv is an inductive invariant over arbitrary positive integers,      *)
(* discharged by Apalache (Init => IndInv at length 0, IndInv /\ Next =>   *)
(* IndInv' at length 1), and it implies what C02 says about the loop:      *)
(* no lot gives more than it holds, every finished event is covered in     *)
(* full by its fractions, and the loop gives up only when the events       *)
(* started exceed all lots together.  The order in which lots are taken    *)
(* (C01) is not the subject here: lots are numbered in the order the       *)
(* method hands them out.  N events and N lots, N = 3 (the sums are        *)
(* written out, which keeps the formulas first order).                     *)
(*                                                                         *)
(* harness/gen.py (prove_pairing, run by check C02) runs the obligations   *)
(* and a sensitivity control: the loop whose third branch forgets to       *)
(* reduce the event (NextBroken) must NOT preserve IndInv.                  *)
(***************************************************************************)
EXTENDS Integers

N == 3
Idx == 1..N

VARIABLES
  \* @type: Int -> Int;
  ev,      \* amount of each taxable event (input, constant along a behaviour)
  \* @type: Int -> Int;
  lot,     \* amount of each lot, in the order the accounting method selects them (input)
  \* @type: Int;
  ei,      \* current event, N + 1 = all events done
  \* @type: Int;
  li,      \* current lot, N + 1 = no lot left
  \* @type: Int;
  ea,      \* what is left of the current event
  \* @type: Int;
  la,      \* what is left of the current lot
  \* @type: Int -> Int;
  paid,    \* sum of the fractions made for each event
  \* @type: Int -> Int;
  used,    \* sum of the fractions taken from each lot
  \* @type: Str;
  pc       \* "run" | "done" | "fail"

\* @type: (Int -> Int) => Int;
S(f) == f[1] + f[2] + f[3]
EvUpTo(k) == (IF k >= 1 THEN ev[1] ELSE 0) + (IF k >= 2 THEN ev[2] ELSE 0) + (IF k >= 3 THEN ev[3] ELSE 0)

TypeOK ==
  /\ ev \in [Idx -> Int] /\ lot \in [Idx -> Int] /\ paid \in [Idx -> Int] /\ used \in [Idx -> Int]
  /\ ei \in 1..(N + 1) /\ li \in 1..(N + 1) /\ ea \in Int /\ la \in Int
  /\ pc \in {"run", "done", "fail"}

Positive == \A i \in Idx : ev[i] > 0 /\ lot[i] > 0

Init ==
  /\ ev \in [Idx -> Int] /\ lot \in [Idx -> Int] /\ Positive
  /\ ei = 1 /\ li = 1 /\ ea = ev[1] /\ la = lot[1]
  /\ paid = [i \in Idx |-> 0] /\ used = [i \in Idx |-> 0]
  /\ pc = "run"

\* one fraction of amount a for the current event out of the current lot
Fraction(a) == /\ paid' = [paid EXCEPT ![ei] = @ + a]
               /\ used' = [used EXCEPT ![li] = @ + a]

NextEvent == /\ ei' = ei + 1
             /\ ea' = IF ei + 1 <= N THEN ev[ei + 1] ELSE 0
NextLot   == /\ li' = li + 1
             /\ la' = IF li + 1 <= N THEN lot[li + 1] ELSE 0

\* after the step: all events done -> "done"; an event left and no lot -> "fail"
After == pc' = IF ei' = N + 1 THEN "done" ELSE IF li' = N + 1 THEN "fail" ELSE "run"

Equal ==        \* the lot is exhausted exactly by the event
  /\ pc = "run" /\ ea = la
  /\ Fraction(ea) /\ NextEvent /\ NextLot /\ After
EventSmaller == \* the event is covered, the lot keeps the rest
  /\ pc = "run" /\ ea < la
  /\ Fraction(ea) /\ NextEvent /\ li' = li /\ la' = la - ea /\ After
LotSmaller ==   \* the lot is exhausted, the event needs another one
  /\ pc = "run" /\ ea > la
  /\ Fraction(la) /\ NextLot /\ ei' = ei /\ ea' = ea - la /\ After

Next == /\ (Equal \/ EventSmaller \/ LotSmaller)
        /\ UNCHANGED <<ev, lot>>

\* sensitivity control: the third branch forgets to reduce the event
LotSmallerBroken ==
  /\ pc = "run" /\ ea > la
  /\ Fraction(la) /\ NextLot /\ ei' = ei /\ ea' = ea /\ After
NextBroken == /\ (Equal \/ EventSmaller \/ LotSmallerBroken)
              /\ UNCHANGED <<ev, lot>>

---------------------------------------------------------------------------
IndInv ==
  /\ TypeOK /\ Positive
  /\ \A i \in Idx : /\ (i < ei => paid[i] = ev[i]) /\ (i > ei => paid[i] = 0)
                    /\ (i < li => used[i] = lot[i]) /\ (i > li => used[i] = 0)
  /\ ei <= N => paid[ei] + ea = ev[ei] /\ ea > 0
  /\ li <= N => used[li] + la = lot[li] /\ la > 0
  /\ ei = N + 1 => ea = 0
  /\ li = N + 1 => la = 0
  /\ \A i \in Idx : paid[i] >= 0 /\ used[i] >= 0
  /\ S(paid) = S(used)
  /\ pc = "done" <=> ei = N + 1
  /\ pc = "fail" <=> (ei <= N /\ li = N + 1)

IndInit == TypeOK /\ IndInv      \* an arbitrary state satisfying the invariant (Apalache: --init=IndInit --length=1)

\* what C02 says about the loop, implied by IndInv (checked as invariants of the same runs)
NoLotOverspent  == \A i \in Idx : 0 <= used[i] /\ used[i] <= lot[i]
CoveredInFull   == \A i \in Idx : i < ei => paid[i] = ev[i]
NeverOverCovered == \A i \in Idx : 0 <= paid[i] /\ paid[i] <= ev[i]
FailOnlyIfShort == pc = "fail" => S(lot) < EvUpTo(ei)
DoneMeansAllCovered == pc = "done" => (\A i \in Idx : paid[i] = ev[i]) /\ S(used) = S(ev)
NoFailIfEnough  == S(lot) >= S(ev) => pc # "fail"
Safety == NoLotOverspent /\ CoveredInFull /\ NeverOverCovered /\ FailOnlyIfShort /\ DoneMeansAllCovered /\ NoFailIfEnough
=============================================================================
