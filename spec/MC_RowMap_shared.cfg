CONSTANTS NAssets = 3 Design = "shared"
INIT Init
NEXT Next
INVARIANT LinksRight
CHECK_DEADLOCK FALSE
