------------------------------ MODULE MC_Sheet ------------------------------
(***************************************************************************)
(* The table automaton of Rp2Sheet over every sequence of row tokens up to *)
(* MaxRows (extended only while the automaton has not yet decided on an    *)
(* error: the error state is terminal).  TLC checks that the automaton     *)
(* agrees with an independent, declarative statement of the documented     *)
(* sheet grammar (WellFormed) and that a well-formed sheet yields exactly  *)
(* its data rows, in order, none skipped or twice; the invariant Emit      *)
(* prints every sequence so that the harness replays it into parse_ods.    *)
(***************************************************************************)
EXTENDS Rp2Sheet, Json

CONSTANTS MaxRows
VARIABLES toks
Tokens == {"in", "out", "intra", "end", "blank", "hdr", "junk", "din", "dout", "dintra", "dfee", "dbad"}

K0 == [asset |-> "B1", assets |-> {"B1", "B2"}, exchanges |-> {"Exa", "Exb"}, holders |-> {"Hoa", "Hob"}]
L0 == [in    |-> [timestamp |-> 0, asset |-> 1, exchange |-> 2, holder |-> 3, transaction_type |-> 4, spot_price |-> 5,
                  crypto_in |-> 6, crypto_fee |-> 7, fiat_in_no_fee |-> 8, fiat_in_with_fee |-> 9, fiat_fee |-> 10, unique_id |-> 11],
       out   |-> [timestamp |-> 0, asset |-> 1, exchange |-> 2, holder |-> 3, transaction_type |-> 4, spot_price |-> 5,
                  crypto_out_no_fee |-> 6, crypto_fee |-> 7, crypto_out_with_fee |-> 8, fiat_out_no_fee |-> 9, fiat_fee |-> 10, unique_id |-> 11],
       intra |-> [timestamp |-> 0, asset |-> 1, from_exchange |-> 2, from_holder |-> 3, to_exchange |-> 4, to_holder |-> 5, spot_price |-> 6,
                  crypto_sent |-> 7, crypto_received |-> 8, unique_id |-> 11]]

N_(n) == [k |-> "n", n |-> n, s |-> "", off |-> 0, tz |-> FALSE, us |-> 0]
S_(s) == [k |-> "s", n |-> 0, s |-> s, off |-> 0, tz |-> FALSE, us |-> 0]
T_(t, z) == [k |-> "t", n |-> t, s |-> "", off |-> 0, tz |-> z, us |-> 250000]
X_ == EmptyCell
Din    == <<T_(1000, TRUE), S_("B1"), S_("Exa"), S_("Hoa"), S_("buy"), N_(3), N_(5), X_, X_, X_, N_(1), S_("u1")>>
Dfee   == <<T_(1000, TRUE), S_("B1"), S_("Exa"), S_("Hoa"), S_("buy"), N_(3), N_(5), N_(1), X_, X_, X_, S_("u2")>>
Dout   == <<T_(2000, TRUE), S_("B1"), S_("Exa"), S_("Hoa"), S_("sell"), N_(4), N_(2), N_(1), X_, X_, X_, S_("u3")>>
Dintra == <<T_(3000, TRUE), S_("B1"), S_("Exa"), S_("Hoa"), S_("Exb"), S_("Hoa"), N_(4), N_(2), N_(1), X_, X_, S_("u4")>>
Dbad   == <<T_(1000, FALSE), S_("B1"), S_("Exa"), S_("Hoa"), S_("buy"), N_(3), N_(5), X_, X_, X_, X_, S_("u5")>>

RowOf(tok) ==
  CASE tok \in {"in", "out", "intra"} -> [k |-> "begin", tbl |-> tok, cells |-> << >>]
    [] tok = "end"    -> [k |-> "end", tbl |-> "", cells |-> << >>]
    [] tok = "blank"  -> [k |-> "blank", tbl |-> "", cells |-> << >>]
    [] tok = "hdr"    -> [k |-> "hdr", tbl |-> "", cells |-> << >>]
    [] tok = "junk"   -> [k |-> "junk", tbl |-> "", cells |-> << >>]
    [] tok = "din"    -> [k |-> "data", tbl |-> "", cells |-> Din]
    [] tok = "dfee"   -> [k |-> "data", tbl |-> "", cells |-> Dfee]
    [] tok = "dout"   -> [k |-> "data", tbl |-> "", cells |-> Dout]
    [] tok = "dintra" -> [k |-> "data", tbl |-> "", cells |-> Dintra]
    [] OTHER          -> [k |-> "data", tbl |-> "", cells |-> Dbad]
Rows(ts) == [i \in 1..Len(ts) |-> RowOf(ts[i])]

\* the automaton state after reading the tokens, before the end-of-sheet checks
RECURSIVE Run(_, _, _)
Run(st, rows, i) == IF i > Len(rows) THEN st ELSE Run(ReadRow(K0, L0, st, rows[i], i), rows, i + 1)
After(ts) == Run(InitP, Rows(ts), 1)

Init == toks = << >>
Next == /\ Len(toks) < MaxRows
        /\ After(toks).status = "ok"
        /\ \E t \in Tokens : toks' = Append(toks, t)
Spec == Init /\ [][Next]_toks

---------------------------------------------------------------------------
(* The documented grammar, stated without an automaton.                    *)
Begins == {"in", "out", "intra"}
Pos(ts) == 1..Len(ts)
Depth(ts, i) == Cardinality({j \in 1..i : ts[j] \in Begins}) - Cardinality({j \in 1..i : ts[j] = "end"})
\* position of the keyword that opened the table position i lies in (0: outside)
Opener(ts, i) == IF Depth(ts, i) = 0 \/ ts[i] \in Begins THEN 0
                 ELSE CHOOSE j \in 1..(i - 1) : ts[j] \in Begins /\ \A q \in (j + 1)..(i - 1) : ts[q] \notin Begins \cup {"end"}
DataOf(tbl) == CASE tbl = "in" -> {"din", "dfee"} [] tbl = "out" -> {"dout"} [] OTHER -> {"dintra"}
HasData(ts, j) == \E i \in Pos(ts) : i > j /\ Opener(ts, i) = j /\ i > j + 1 /\ ts[i] \notin {"end"}

WellFormed(ts) ==
  /\ \A i \in Pos(ts) : Depth(ts, i) \in {0, 1}                          \* no nesting, no stray TABLE END
  /\ Len(ts) > 0 => Depth(ts, Len(ts)) = 0                                \* every table closed
  /\ \A i \in Pos(ts) : ts[i] = "end" => Depth(ts, i) = 0
  /\ \A i \in Pos(ts) : (ts[i] \notin Begins /\ ts[i] # "end" /\ Opener(ts, i) = 0) => ts[i] = "blank"   \* only blank rows outside tables
  /\ \A i \in Pos(ts) : LET j == Opener(ts, i) IN
        (j # 0 /\ ts[i] # "end") =>
           IF i = j + 1 THEN ts[i] \in {"hdr", "junk"}                    \* header line
           ELSE ts[i] \in DataOf(ts[j])                                   \* then only valid rows of that table
  /\ \A i, j \in Pos(ts) : (i < j /\ ts[i] \in Begins /\ ts[i] = ts[j]) => FALSE    \* each table at most once
  /\ \E j \in Pos(ts) : ts[j] = "in" /\ HasData(ts, j)                    \* IN table present and not empty

\* sheets whose treatment the documented format leaves open (see Rp2Sheet)
Free(ts) == Parse(K0, L0, Rows(ts)).status = "free"

AutomatonMatchesGrammar ==
  ~Free(toks) => ((Parse(K0, L0, Rows(toks)).status = "ok") <=> WellFormed(toks))

\* a well-formed sheet yields exactly its data rows: every one once, in order, under its own row number
CollectedExactly ==
  LET p == Parse(K0, L0, Rows(toks)) IN
  p.status = "ok" =>
    LET rowsOf(S) == SelectSeq([i \in 1..Len(toks) |-> i], LAMBDA i : toks[i] \in S)
    IN /\ [q \in 1..Len(p.ins) |-> p.ins[q].row] = rowsOf({"din", "dfee"})
       /\ [q \in 1..Len(p.outs) |-> p.outs[q].row] = rowsOf({"dout"})
       /\ [q \in 1..Len(p.intras) |-> p.intras[q].row] = rowsOf({"dintra"})
       /\ [q \in 1..Len(p.arts) |-> p.arts[q].par] = rowsOf({"dfee"})

\* printed once: the concrete row behind every token and the layout, so that the harness replays exactly these rows
EmitPool == toks # << >> \/ PrintT("P|" \o ToJson([t \in Tokens |-> RowOf(t)]) \o "|" \o ToJson(L0))
Emit == toks = << >> \/ PrintT("S|" \o ToJson(toks) \o "|" \o Parse(K0, L0, Rows(toks)).status)
=============================================================================
