----------------------------- MODULE Trace_Docs -----------------------------
(***************************************************************************)
(* Trace validation of the reports (C13, C14, C15, C19, C20): each trace   *)
(* is one end-to-end run - the abstract input of every asset, what the run *)
(* computed (captured just before the report generators ran) and the       *)
(* documents it wrote, read back and projected by the harness.  One        *)
(* behaviour per trace, one step; the verdict is the set of failing        *)
(* clauses of Rp2Docs.                                                     *)
(***************************************************************************)
EXTENDS Rp2Docs, Json, IOUtils, TLCExt

Traces == JsonDeserialize(IOEnv.TRACE_FILE)
N      == Len(Traces)

VARIABLES tid, done, fails
vars == <<tid, done, fails>>

UnionOver(n, f(_)) == UNION {f(k) : k \in 1..n}

FullFails(tr) ==
  IF tr.prob.full # << >> THEN {"C13.report_has_its_sheets_and_tables"}
  ELSE (IF tr.ex.full THEN {} ELSE {"C13.figures_equal_computed_values_to_double_precision"})
       \cup UnionOver(Len(tr.as), LAMBDA k : FullAssetFails(tr.W, tr.as[k]))
       \cup FullSharedFails(tr.W, tr.as, tr.sm, tr.lg)
       \cup UnionOver(Len(tr.as), LAMBDA k : LinkAssetFails(tr.W, tr.as[k]))
       \cup LinkSummaryFails(tr.W, tr.as, tr.sm)

TaxFails(tr) ==
  IF tr.prob.tax # << >> THEN {"C14.report_is_readable"}
  ELSE (IF tr.ex.tax THEN {} ELSE {"C14.figures_equal_computed_values_to_double_precision"})
       \cup TaxReportFails(tr.W, tr.as, tr.tx)

OpenFails(tr) ==
  IF tr.prob.open # << >> THEN {"C15.report_has_its_sheets"}
  ELSE (IF tr.ex.open THEN {} ELSE {"C15.figures_equal_computed_values_to_double_precision"})
       \cup OpenPositionsFails(tr.W, tr.as, tr.op)

JpFails(tr) ==
  IF tr.prob.jp # << >> THEN {"C20.report_is_readable"}
  ELSE (IF tr.ex.jp THEN {} ELSE {"C20.figures_equal_computed_values_to_double_precision"})
       \cup JpReportFails(tr.W, tr.as, tr.jp, tr.md)

Init == tid \in 1..N /\ done = FALSE /\ fails = {}
Step == /\ ~done
        /\ LET tr == Traces[tid] IN
           fails' = (IF tr.has.full THEN FullFails(tr) ELSE {})
                    \cup (IF tr.has.tax THEN TaxFails(tr) ELSE {})
                    \cup (IF tr.has.open THEN OpenFails(tr) ELSE {})
                    \cup (IF tr.has.jp THEN JpFails(tr) ELSE {})
        /\ done' = TRUE
        /\ UNCHANGED tid
Spec == Init /\ [][Step]_vars

Verdict == done => PrintT("V|" \o ToString(tid) \o "|" \o ToJson({<<c, 1>> : c \in fails}))
=============================================================================
