CONSTANTS NAssets = 2 Design = "sorted"
INIT Init
NEXT Next
INVARIANT ChainRight
INVARIANT Emit
CHECK_DEADLOCK FALSE
