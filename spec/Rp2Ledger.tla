----------------------------- MODULE Rp2Ledger -----------------------------
(***************************************************************************)
(* Verdict-carrying specification of RP2's per-asset ledger: lots,         *)
(* disposals, fractions (Rp2Lots part), account balances (Rp2Balances      *)
(* part) and the derived views (yearly summary, date windows, labels).     *)
(*                                                                         *)
(* This module says what properties C01..C10 of /verif/properties.jsonl    *)
(* say and nothing more (DESIGN.md, P1): ties between equally ranked lots  *)
(* are free, the order in which same-instant disposals are served is       *)
(* taken from the run, the band "negative by no more than 1e-10" is        *)
(* don't-care.  It contains no variables: it is a library of operators on  *)
(* a history E (a sequence of transaction records), a set A of active      *)
(* positions of E and a ledger state ls.  MC_Ledger.tla turns the          *)
(* operators into a nondeterministic state machine that TLC model-checks;  *)
(* Trace_Ledger.tla uses the very same operators to judge executions       *)
(* recorded from the real rp2.                                             *)
(*                                                                         *)
(* Numbers (DESIGN.md, P3): crypto amounts are integer multiples of a      *)
(* unit U, prices of a unit P; money is an integer count of U*P/Q where Q  *)
(* (per history) is a common multiple of every amount that can appear as   *)
(* a denominator, so that pro-rating is exact integer arithmetic.          *)
(* Instants are seconds since 2019-01-01T00:00:00Z; every transaction      *)
(* carries its UTC offset in seconds (P4).                                 *)
(***************************************************************************)
EXTENDS Integers, Sequences, FiniteSets, TLC, SequencesExt, FiniteSetsExt

EarnTypes == {"airdrop", "hardfork", "income", "interest", "mining", "staking", "wages"}
InTypes   == EarnTypes \cup {"buy", "gift", "donate"}
OutTypes  == {"sell", "gift", "donate", "fee", "lost", "staking"}
Methods   == {"fifo", "lifo", "hifo", "lofo"}

Never  == 2000000000      \* holding period of countries without long-term gains
MinDay == -1000000        \* "no from-date"
MaxDay == 1000000         \* "no to-date"

---------------------------------------------------------------------------
(* Calendar (trusted constant, generated once from Python's datetime):     *)
(* YearStart[k] = day index, relative to 2019-01-01, of 1 January of the   *)
(* year BaseYear + k - 1.                                                  *)
BaseYear  == 2010
YearStart == << -3287, -2922, -2557, -2191, -1826, -1461, -1096, -730, -365, 0, 365, 731,
                1096, 1461, 1826, 2192, 2557, 2922, 3287, 3653, 4018, 4383, 4748, 5114,
                5479, 5844, 6209, 6575, 6940, 7305, 7670 >>

FloorDiv(a, b) == IF a >= 0 THEN a \div b ELSE -((-a + b - 1) \div b)
DayOf(t, off) == FloorDiv(t + off, 86400)
YearOfDay(d)  == BaseYear - 1 + Cardinality({k \in 1..Len(YearStart) : YearStart[k] <= d})
Day(x)        == DayOf(x.t, x.off)          \* local calendar day of a transaction
Year(x)       == YearOfDay(Day(x))          \* local calendar year of a transaction
FromYear(from) == IF from = MinDay THEN 0 ELSE YearOfDay(from)
InWin(x, from, to) == from <= Day(x) /\ Day(x) <= to

---------------------------------------------------------------------------
(* Transactions.  A record has the fields                                  *)
(*   cls  "in" | "out" | "intra"      type  transaction type (move: intra) *)
(*   t, off                           instant, UTC offset                  *)
(*   a1   account (in: receiving, out: paying, intra: sending)             *)
(*   a2   receiving account of an intra, else 0                            *)
(*   amt  in: crypto received, out: crypto out without fee, intra: sent    *)
(*   fee  crypto fee (in: fee of the acquisition, intra: sent - received)  *)
(*   price spot price          ffee  fiat fee of an acquisition (units U*P)*)
(*   vin, vwf, vout, vfee   exchange-supplied fiat values or -1:           *)
(*        fiat in without fee, fiat in with fee, fiat out without fee,     *)
(*        fiat fee of an out                                               *)
(*   par  0, or for an artificial fee disposal the position of the         *)
(*        acquisition whose crypto fee it models                           *)
(* An account is the integer 10*exchange + holder.                         *)

IsIn(x)     == x.cls = "in"
IsEarn(x)   == x.cls = "in" /\ x.type \in EarnTypes
IsTaxable(x) == IsEarn(x) \/ x.cls = "out" \/ (x.cls = "intra" /\ x.fee > 0)
IsDisposal(x) == IsTaxable(x) /\ ~IsEarn(x)
HolderOf(a) == a % 10

\* crypto amount that leaves the holder (disposals) / is earned (income)
Total(x) == CASE x.cls = "out"   -> x.amt + x.fee
              [] x.cls = "intra" -> x.fee
              [] OTHER           -> x.amt

\* fiat value of an acquisition without / with fee, in money units (C04)
FiatIn(Q, x)  == IF x.vin >= 0 THEN x.vin * Q ELSE x.amt * x.price * Q
LotCost(Q, x) == IF x.vwf >= 0 THEN x.vwf * Q
                 ELSE FiatIn(Q, x) + (IF x.fee > 0 THEN x.fee * x.price ELSE x.ffee) * Q

\* taxable fiat value of an event (C04): sale value excluding fee; fee value for
\* fee-only events and transfer fees; fiat value (with the fee paid to receive it) for income
TaxFiat(Q, x) == CASE IsEarn(x)                          -> LotCost(Q, x)      \* what was received, fee included
                   [] x.cls = "out" /\ x.type = "fee"    -> IF x.vfee >= 0 THEN x.vfee * Q ELSE x.fee * x.price * Q
                   [] x.cls = "out"                      -> IF x.vout >= 0 THEN x.vout * Q ELSE x.amt * x.price * Q
                   [] OTHER                              -> x.fee * x.price * Q

\* The artificial fee-only disposal that models the crypto fee of acquisition x at
\* position p (C11, last sentence).
ArtOf(x, p) == [cls |-> "out", type |-> "fee", t |-> x.t, off |-> x.off, a1 |-> x.a1, a2 |-> 0,
                amt |-> 0, fee |-> x.fee, price |-> x.price, ffee |-> 0,
                vin |-> -1, vwf |-> -1, vout |-> -1, vfee |-> -1, par |-> p]

FeeParents(H) == SelectSeq([i \in 1..Len(H) |-> i], LAMBDA i : H[i].cls = "in" /\ H[i].fee > 0)
\* expanded history: the given transactions followed by the artificial fee disposals
Expand(H) == LET P == FeeParents(H) IN H \o [j \in 1..Len(P) |-> ArtOf(H[P[j]], P[j])]
\* positions of the expanded history that belong to the prefix of the first k given transactions
Active(E, n, k) == (1..k) \cup {i \in (n + 1)..Len(E) : E[i].par <= k}

Sum(S, f(_)) == MapThenSumSet(f, S)

Lots(E, A)      == {i \in A : IsIn(E[i])}
Events(E, A)    == {i \in A : IsTaxable(E[i])}
Disposals(E, A) == {i \in A : IsDisposal(E[i])}

---------------------------------------------------------------------------
(* C02: a history is covered when at every disposal instant the lots       *)
(* acquired so far (same-instant acquisitions included) cover everything   *)
(* disposed of so far.  The order of same-instant disposals is irrelevant  *)
(* for this predicate.                                                     *)
Covered(E, A) ==
  \A d \in Disposals(E, A) :
     Sum({i \in Lots(E, A) : E[i].t <= E[d].t}, LAMBDA i : E[i].amt)
       >= Sum({j \in Disposals(E, A) : E[j].t <= E[d].t}, LAMBDA j : Total(E[j]))

---------------------------------------------------------------------------
(* C01: the accounting method in force and the ranking it prescribes.      *)
\* sched is a sequence of <<year, method>>; the entry with the greatest year <= y applies
MethodFor(sched, y) ==
  LET S == {k \in 1..Len(sched) : sched[k][1] <= y}
  IN IF S = {} THEN "none"
     ELSE sched[CHOOSE k \in S : \A j \in S : sched[j][1] <= sched[k][1]][2]

\* lot a is strictly better ranked than lot b (primary rank only; ties are free)
Better(m, a, b) == CASE m = "fifo" -> a.t < b.t
                     [] m = "lifo" -> a.t > b.t
                     [] m = "hifo" -> a.price > b.price
                     [] m = "lofo" -> a.price < b.price
                     [] OTHER      -> FALSE

Avail(E, A, rem, x) == {i \in Lots(E, A) : E[i].t <= x.t /\ rem[i] > 0}
\* lot i is not beaten by any available lot
Unbeaten(sched, E, A, rem, x, i) ==
  LET m == MethodFor(sched, Year(x))
  IN \A j \in Avail(E, A, rem, x) : ~Better(m, E[j], E[i])
Best(sched, E, A, rem, x) == {i \in Avail(E, A, rem, x) : Unbeaten(sched, E, A, rem, x, i)}

---------------------------------------------------------------------------
(* The lot/fraction part of the ledger state:                              *)
(*   rem    remaining amount per position (0 for non-lots)                 *)
(*   fracs  emitted fractions [ev, lot (0: none), amt, proc, cost, gain, long] *)
(*   pend   event being served (0: none), left: amount of it still to cover *)
(*   done   events completely served, lastT: instant of the last event begun *)
InitLS(E) == [rem   |-> [i \in 1..Len(E) |-> IF IsIn(E[i]) THEN E[i].amt ELSE 0],
              fracs |-> << >>, pend |-> 0, left |-> 0, done |-> {}, lastT |-> -2000000000]

\* C05: holding period in whole days per country plugin; "generic" takes the configured value
Period(C) == CASE C.country \in {"us", "es"} -> 365
               [] C.country \in {"jp", "ie"} -> Never
               [] OTHER                      -> C.ltcg

Failing(S) == {c[1] : c \in {cc \in S : ~cc[2]}}

\* the fraction the specification prescribes for taking amount a of lot i (0: none) for event e
Frac(C, E, e, i, a) ==
  LET x == E[e]
      proc == (TaxFiat(C.Q, x) * a) \div Total(x)
      cost == IF i = 0 THEN 0 ELSE (LotCost(C.Q, E[i]) * a) \div E[i].amt
  IN [ev |-> e, lot |-> i, amt |-> a, proc |-> proc, cost |-> cost, gain |-> proc - cost,
      long |-> IF i = 0 THEN FALSE ELSE FloorDiv(x.t - E[i].t, 86400) >= Period(C)]

(* One fraction reported by a run: ln = [ev, lot, amt, proc, cost, gain, long, ex].  *)
(* Returns the next state and the set of named clauses that do not hold.   *)
(* The state follows the run even where a clause fails (P8), so that later *)
(* clauses of other properties are still judged.                           *)
TakeStep(C, E, A, ls, ln) ==
  LET e == ln.ev
      i == ln.lot
  IN IF ~(e \in A) \/ ~(i = 0 \/ (i \in A /\ IsIn(E[i])))
     THEN [st |-> ls, fails |-> {"S.fraction_refers_to_unknown_transaction"}]
     ELSE
     LET x     == E[e]
         new   == ls.pend # e
         f0    == IF new THEN Failing({
                     <<"C02.previous_event_fully_covered", ls.pend = 0 \/ ls.left = 0>>,
                     <<"C03.event_is_taxable", IsTaxable(x)>>,
                     <<"C03.event_reported_once", e \notin ls.done>>,
                     <<"C01.events_served_in_time_order", x.t >= ls.lastT>> })
                  ELSE {}
         left0 == IF new THEN Total(x) ELSE ls.left
         done0 == IF new /\ ls.pend # 0 THEN ls.done \cup {ls.pend} ELSE ls.done
         f1    == Failing({
                     <<"C04.figures_are_exact_rationals", ln.ex>>,
                     <<"C04.gain_is_proceeds_minus_cost", ln.gain = ln.proc - ln.cost>>,
                     <<"C04.proceeds_prorated_over_total_outgoing",
                          Total(x) > 0 => ln.proc * Total(x) = TaxFiat(C.Q, x) * ln.amt>> })
         f2    == IF IsEarn(x) THEN Failing({
                     <<"C03.earn_event_has_no_lot", i = 0>>,
                     <<"C03.earn_event_full_amount", ln.amt = x.amt>>,
                     <<"C03.earn_event_zero_cost", ln.cost = 0>>,
                     <<"C03.earn_event_at_its_full_fiat_value", ln.proc = TaxFiat(C.Q, x)>>,
                     <<"C05.earn_event_is_short_term", ln.long = FALSE>> })
                  ELSE IF i = 0 THEN {"C03.disposal_has_lot"}
                  ELSE Failing({
                     <<"C02.lot_not_acquired_after_event", E[i].t <= x.t>>,
                     <<"C02.fraction_amount_positive", ln.amt > 0>>,
                     <<"C02.lot_not_overspent", ln.amt <= ls.rem[i]>>,
                     <<"C02.event_not_overcovered", ln.amt <= left0>>,
                     <<"C01.lot_is_best_ranked_available", Unbeaten(C.sched, E, A, ls.rem, x, i)>>,
                     <<"C04.cost_prorated_over_lot_amount", ln.cost * E[i].amt = LotCost(C.Q, E[i]) * ln.amt>>,
                     <<"C05.long_term_iff_holding_period_reached",
                          E[i].t <= x.t => (ln.long = (FloorDiv(x.t - E[i].t, 86400) >= Period(C)))>> })
         rem1  == IF i = 0 \/ IsEarn(x) THEN ls.rem ELSE [ls.rem EXCEPT ![i] = @ - ln.amt]
         \* witnesses (names "W.<property>...") that the antecedent of a property really occurred
         av    == Avail(E, A, ls.rem, x)
         mth   == MethodFor(C.sched, Year(x))
         w     == {c[1] : c \in {cc \in {
                     <<"W.C01.choice_between_differently_ranked_lots",
                          IsDisposal(x) /\ \E j, q \in av : Better(mth, E[j], E[q])>>,
                     <<"W.C01.tie_between_equally_ranked_lots",
                          IsDisposal(x) /\ i # 0 /\ \E j \in av : j # i /\ ~Better(mth, E[j], E[i]) /\ ~Better(mth, E[i], E[j])>>,
                     <<"W.C02.partial_lot_or_multi_lot_event", IsDisposal(x) /\ i # 0 /\ (ln.amt < ls.rem[i] \/ ln.amt < left0)>>,
                     <<"W.C03.earn_event", IsEarn(x)>>,
                     <<"W.C03.transfer_fee_event", x.cls = "intra">>,
                     <<"W.C03.out_event", x.cls = "out">>,
                     <<"W.C04.prorated_fraction", i # 0 /\ (ln.amt < Total(x) \/ ln.amt < E[i].amt)>>,
                     <<"W.C04.exchange_supplied_value", x.vin >= 0 \/ x.vout >= 0 \/ x.vfee >= 0 \/ (i # 0 /\ (E[i].vin >= 0 \/ E[i].vwf >= 0))>>,
                     <<"W.C05.long_term_fraction", ln.long>>,
                     <<"W.C05.short_term_fraction_of_lot", i # 0 /\ ~ln.long>> } : cc[2]}}
     IN [st |-> [rem |-> rem1,
                 fracs |-> Append(ls.fracs, [ev |-> e, lot |-> i, amt |-> ln.amt, proc |-> ln.proc,
                                            cost |-> ln.cost, gain |-> ln.gain, long |-> ln.long]),
                 pend |-> e, left |-> left0 - ln.amt, done |-> done0,
                 lastT |-> IF new THEN x.t ELSE ls.lastT],
         fails |-> f0 \cup f1 \cup f2 \cup w]

\* end of the run whose fractions were reported: everything taxable was served in full
DoneStep(C, E, A, ls) ==
  LET served == IF ls.pend = 0 THEN ls.done ELSE ls.done \cup {ls.pend}
  IN [st |-> [ls EXCEPT !.done = served, !.pend = 0],
      fails |-> Failing({
         <<"C02.last_event_fully_covered", ls.pend = 0 \/ ls.left = 0>>,
         <<"C03.every_taxable_event_reported", Events(E, A) \subseteq served>>,
         <<"C03.only_taxable_events_reported", served \subseteq Events(E, A)>> })]

---------------------------------------------------------------------------
(* Rp2Balances: chronological replay of the account ledger (C07, C08).     *)
(* Within one instant credits of acquisitions come first, then transfers,  *)
(* then disposals (the "same-instant buy + sell" clause of C08).           *)
ClsOrd(x) == CASE x.cls = "in" -> 0 [] x.cls = "intra" -> 1 [] OTHER -> 2
PostBefore(E, i, j) == \/ E[i].t < E[j].t
                       \/ E[i].t = E[j].t /\ ClsOrd(E[i]) < ClsOrd(E[j])
                       \/ E[i].t = E[j].t /\ ClsOrd(E[i]) = ClsOrd(E[j]) /\ i < j

Touched(E, S) == {E[i].a1 : i \in S} \cup {E[i].a2 : i \in {j \in S : E[j].cls = "intra"}}

ZeroBal == [acq |-> 0, sent |-> 0, recv |-> 0, fin |-> 0]

\* effect of posting transaction x on the ledger b = [bal, neg]; R = tolerated overdraft in units
Post(b, x, R) ==
  CASE x.cls = "in" ->
         [b EXCEPT !.bal[x.a1].acq = @ + x.amt, !.bal[x.a1].fin = @ + x.amt]
    [] x.cls = "out" ->
         LET b1 == [b EXCEPT !.bal[x.a1].sent = @ + x.amt + x.fee, !.bal[x.a1].fin = @ - x.amt - x.fee]
         IN IF b1.bal[x.a1].fin < -R THEN [b1 EXCEPT !.neg = @ \cup {x.a1}] ELSE b1
    [] OTHER ->
         LET b1 == [b EXCEPT !.bal[x.a1].sent = @ + x.amt, !.bal[x.a1].fin = @ - x.amt]
             b2 == [b1 EXCEPT !.bal[x.a2].recv = @ + (x.amt - x.fee), !.bal[x.a2].fin = @ + (x.amt - x.fee)]
         IN IF b2.bal[x.a1].fin < -R THEN [b2 EXCEPT !.neg = @ \cup {x.a1}] ELSE b2

\* ledger after posting, in order, the active transactions dated up to the to-date
Ledger(E, A, to, R) ==
  LET S   == {i \in A : Day(E[i]) <= to}
      ord == SetToSortSeq(S, LAMBDA i, j : PostBefore(E, i, j))
  IN FoldLeft(LAMBDA b, i : Post(b, E[i], R), [bal |-> [a \in Touched(E, S) |-> ZeroBal], neg |-> {}], ord)

\* two transfers at one instant where one feeds the other: the order of posting them is a tie
\* the property does not resolve; generators avoid it and traces that contain it are not judged
SameInstantChain(E, A) ==
  \E i, j \in {k \in A : E[k].cls = "intra"} : i # j /\ E[i].t = E[j].t /\ E[i].a2 = E[j].a1

---------------------------------------------------------------------------
(* Derived views (C06, C09, C10).  FS = a set of fraction records.         *)
FracTuple(f) == <<f.ev, f.lot, f.amt, f.proc, f.cost, f.gain, f.long>>

\* yearly summary: one line per <<year of the event, type, long>> that has fractions
Summary(E, FS, fromYear) ==
  LET Key(f) == <<Year(E[f.ev]), E[f.ev].type, f.long>>
      Keys   == {Key(f) : f \in FS}
      Of(k)  == {f \in FS : Key(f) = k}
  IN {<<k[1], k[2], k[3], Sum(Of(k), LAMBDA f : f.amt), Sum(Of(k), LAMBDA f : f.proc),
        Sum(Of(k), LAMBDA f : f.cost), Sum(Of(k), LAMBDA f : f.gain)>> : k \in {kk \in Keys : kk[1] >= fromYear}}

\* "k/n" labels of the fraction at position p of the fraction sequence fr, counted over the
\* fractions whose positions are in the set Inc (those dated up to the to-date)
Labels(fr, Inc, p) ==
  LET f == fr[p]
      sameEv  == {q \in Inc : fr[q].ev = f.ev}
      sameLot == {q \in Inc : fr[q].lot = f.lot}
  IN <<f.ev, f.lot,
       Cardinality({q \in sameEv : q <= p}), Cardinality(sameEv),
       IF f.lot = 0 THEN 0 ELSE Cardinality({q \in sameLot : q <= p}),
       IF f.lot = 0 THEN 0 ELSE Cardinality(sameLot)>>

---------------------------------------------------------------------------
(* Observation of another real run on the same history (DESIGN.md,         *)
(* section 2: one abstract behaviour explains several real runs).          *)
(* ln = [k, from, to, neg, status, acct, ex, fr, ins, outs, intras, tev,   *)
(*       yr, bal, ppu, lab, sold]: the run on the first k transactions, limited  *)
(* to the window from..to (local days), with / without "allow negative     *)
(* balances"; status "ok" | "lots" | "balance" | "other"; the views the    *)
(* run reported.  n = number of given transactions, m = prefix length of   *)
(* the run whose fractions built ls.  Returns the set of failing clauses.  *)
SeqSum(s, f(_)) == FoldLeft(LAMBDA acc, r : acc + f(r), 0, s)

(* Known finding D8 (see known_findings.json): RP2 implements the to-date by stopping, in     *)
(* instant order, at the first entry whose own date is past the bound.  When transactions     *)
(* carry different UTC offsets an entry dated after the to-date can precede, by instant, an   *)
(* entry dated on or before it; the later entry is then hidden although its own calendar date *)
(* lies in the window.  Runs on such (history, to-date) pairs are judged as one class: a      *)
(* failing view is reported under the clause K.C10.D8 (a listed finding, not a new violation) *)
CutAmbiguous(E, A, to) ==
  \E i, j \in A : i # j /\ E[i].t <= E[j].t /\ Day(E[i]) > to /\ Day(E[j]) <= to
SetEq(s, S) == ToSet(s) = S /\ Len(s) = Cardinality(S)      \* sequence s lists set S without repetition

ObsFails(C, E, n, m, ls, ln) ==
  LET k      == ln.k
      from   == ln.from
      to     == ln.to
      A      == Active(E, n, k)
      covered == Covered(E, A)
      windowed == from # MinDay \/ to # MaxDay
      \* a run on a truncated input: the history of this asset cut at T (k < m), or - end to end, several assets in one run - the whole input
      \* cut at T, which may leave this asset's own history complete (field trunc of the observation)
      cutrun == k < m \/ ("trunc" \in DOMAIN ln /\ ln.trunc)
  IN IF k < 1 \/ k > n THEN {"S.bad_prefix_length"}
     ELSE IF SameInstantChain(E, A) THEN {"S.same_instant_transfer_chain_not_judged"}
     ELSE IF ln.status # "ok" THEN
       LET negAny == Ledger(E, A, to, 0).neg      \* (a run limited by a to-date replays the accounts up to that date only)
       IN Failing({
            <<"C02.covered_history_not_rejected", ln.status \in {"lots", "other"} => ~covered>>,
            <<"C08.no_rejection_without_overdraft", ln.status = "balance" => (negAny # {} /\ ~ln.neg)>>,
            <<"C08.error_names_an_overdrawn_account", ln.status = "balance" => ln.acct \in negAny>> })
          \cup (IF ln.status = "lots" /\ ~covered THEN {"W.C02.overspending_history_rejected"} ELSE {})
          \cup (IF ln.status = "balance" /\ negAny # {} THEN {"W.C08.overdrawing_history_rejected"} ELSE {})
     ELSE
       LET L      == Ledger(E, A, to, C.band)
           f0     == Failing({
                       <<"C02.overspending_history_rejected", covered>>,
                       <<"C08.overdrawing_history_rejected", ln.neg \/ L.neg = {}>>,
                       <<"S.reference_run_is_largest_successful_prefix", k <= m>>,
                       <<"C04.figures_are_exact_rationals", ln.ex>> })
       IN IF k > m THEN f0
          ELSE
          LET fr     == ls.fracs
              FSall  == {q \in 1..Len(fr) : fr[q].ev \in A /\ Day(E[fr[q].ev]) <= to}
              FSwin  == {q \in FSall : Day(E[fr[q].ev]) >= from}
              expFr  == {FracTuple(fr[q]) : q \in FSwin}
              frN    == (IF cutrun THEN {"C09.truncated_history_same_fractions"} ELSE {})
                        \cup (IF to # MaxDay /\ from = MinDay THEN {"C09.to_date_run_same_fractions"} ELSE {})
                        \cup (IF windowed THEN {"C10.window_shows_exactly_the_dated_fractions"} ELSE {})
                        \cup (IF k = m /\ ~windowed THEN {"C17.same_input_same_fractions"} ELSE {})
              f1     == IF SetEq(ln.fr, expFr) THEN {} ELSE frN
              \* under a from-date every disposal shown is still matched to the lots the method prescribes given ALL earlier consumption
              \* (events before the from-date, transfer fees included, have taken their part): same (event, lot) pairs as the unfiltered run
              pairs(S) == {<<x[1], x[2]>> : x \in S}
              f1b    == IF from # MinDay /\ pairs(ToSet(ln.fr)) # pairs(expFr) THEN {"C01.date_filter_does_not_change_lot_choice"} ELSE {}
              \* ... and a date filter only selects fractions: those shown keep their figures and their term
              p3(S)  == {<<x[1], x[2], x[3]>> : x \in S}
              p6(S)  == {<<x[1], x[2], x[3], x[4], x[5], x[6]>> : x \in S}
              p37(S) == {<<x[1], x[2], x[3], x[7]>> : x \in S}
              f1c    == IF windowed /\ p3(ToSet(ln.fr)) = p3(expFr)
                        THEN (IF p6(ToSet(ln.fr)) # p6(expFr) THEN {"C04.date_filter_does_not_change_figures"} ELSE {})
                             \cup (IF p37(ToSet(ln.fr)) # p37(expFr) THEN {"C05.date_filter_does_not_change_term"} ELSE {})
                        ELSE (IF from # MinDay THEN {"C02.date_filter_does_not_change_lot_consumption"} ELSE {})     \* (which lot gives how much)
              win(S) == {i \in S : InWin(E[i], from, to)}
              txOK   == /\ SetEq(ln.ins, win({i \in A : E[i].cls = "in"}))
                        /\ SetEq(ln.outs, win({i \in A : E[i].cls = "out"}))
                        /\ SetEq(ln.intras, win({i \in A : E[i].cls = "intra"}))
              f2     == IF txOK THEN {}
                        ELSE (IF windowed THEN {"C10.window_shows_exactly_the_dated_transactions"} ELSE {"C11.every_transaction_listed_once"})
                             \cup (IF cutrun \/ (to # MaxDay /\ from = MinDay) THEN {"C09.to_date_run_same_transactions"} ELSE {})
              f3     == IF SetEq(ln.tev, win(Events(E, A))) THEN {}
                        ELSE IF windowed THEN {"C10.window_shows_exactly_the_dated_taxable_events"}
                        ELSE {"C03.taxable_event_set_is_exact"}
              expYr  == Summary(E, {fr[q] : q \in FSall}, FromYear(from))
              yrN    == {"C06.yearly_summary_equals_sum_of_fractions"}
                        \cup (IF cutrun \/ (to # MaxDay /\ from = MinDay) THEN {"C09.closed_year_totals_unchanged"} ELSE {})
                        \cup (IF from # MinDay THEN {"C10.yearly_lines_cover_whole_years_from_window_start"} ELSE {})
              \* (lines merged over long / short: if the merged lines agree, the mismatch is in how fractions were split by term)
              NoTerm(S) == {<<yt[1], yt[2], Sum({r \in S : r[1] = yt[1] /\ r[2] = yt[2]}, LAMBDA r : r[4]), Sum({r \in S : r[1] = yt[1] /\ r[2] = yt[2]}, LAMBDA r : r[5])>> :
                              yt \in {<<r[1], r[2]>> : r \in S}}
              f4     == IF SetEq(ln.yr, expYr) THEN {}
                        ELSE yrN \cup (IF NoTerm(ToSet(ln.yr)) = NoTerm(expYr) THEN {"C05.yearly_lines_split_by_the_term_of_each_fraction"} ELSE {})
              expBal == {<<a, L.bal[a].acq, L.bal[a].sent, L.bal[a].recv, L.bal[a].fin>> : a \in DOMAIN L.bal}
              balN   == {"C07.balances_equal_account_flows"}
                        \cup (IF to # MaxDay THEN {"C10.balances_reflect_history_up_to_to_date"} ELSE {})
                        \cup (IF cutrun \/ (to # MaxDay /\ from = MinDay) THEN {"C09.to_date_run_same_balances"} ELSE {})
              f5     == IF SetEq(ln.bal, expBal) THEN {} ELSE balN
              lotsTo == {i \in Lots(E, A) : Day(E[i]) <= to}
              unsold == Sum(lotsTo, LAMBDA i : E[i].amt)
                        - Sum({q \in FSall : fr[q].lot # 0}, LAMBDA q : fr[q].amt)
              f6     == IF SeqSum(ln.bal, LAMBDA r : r[5]) = unsold THEN {}
                        ELSE {"C07.balances_reconcile_with_unsold_lots"}
              inAmt  == Sum(lotsTo, LAMBDA i : E[i].amt)
              inCost == Sum(lotsTo, LAMBDA i : LotCost(C.Q, E[i]))
              f7     == IF (IF inAmt = 0 THEN ln.ppu[1] = 0 ELSE ln.ppu[1] * inAmt = ln.ppu[2] * inCost)
                        THEN {} ELSE {"C10.average_price_reflects_history_up_to_to_date"}
              expLab == {Labels(fr, FSall, q) : q \in FSwin}
              labN   == (IF windowed THEN {"C10.fraction_counts_reflect_history_up_to_to_date"} ELSE {"C13.fraction_counts_k_of_n"})
                        \cup (IF cutrun \/ (to # MaxDay /\ from = MinDay) THEN {"C09.to_date_run_same_fraction_counts"} ELSE {})
                        \cup (IF from # MinDay THEN {"C02.date_filter_does_not_change_lot_consumption"} ELSE {})    \* (a lot's k/n counts every fraction taken from it)
              f8     == IF SetEq(ln.lab, expLab) THEN {} ELSE labN
              \* sold part of every lot shown: what the fractions shown took from it
              expSold == {<<i, Sum({q \in FSwin : fr[q].lot = i}, LAMBDA q : fr[q].amt)>> : i \in win({j \in A : E[j].cls = "in"})}
              soldN  == (IF windowed THEN {"C10.sold_part_counts_the_fractions_shown"} ELSE {"C15.sold_part_is_consumed_part_of_lot"})
                        \cup (IF cutrun \/ (to # MaxDay /\ from = MinDay) THEN {"C09.to_date_run_same_sold_part"} ELSE {})
              f9     == IF SetEq(ln.sold, expSold) THEN {} ELSE soldN
              w      == {c[1] : c \in {cc \in {
                          <<"W.C06.summary_with_several_lines", Cardinality(expYr) >= 2>>,
                          <<"W.C06.line_summing_several_fractions", \E r \in expYr : \E q1, q2 \in FSall : q1 # q2 /\
                               <<Year(E[fr[q1].ev]), E[fr[q1].ev].type, fr[q1].long>> = <<r[1], r[2], r[3]>> /\
                               <<Year(E[fr[q2].ev]), E[fr[q2].ev].type, fr[q2].long>> = <<r[1], r[2], r[3]>> >>,
                          <<"W.C07.several_accounts", Cardinality(DOMAIN L.bal) >= 2>>,
                          <<"W.C07.transfer_posted", \E i \in A : E[i].cls = "intra" /\ Day(E[i]) <= to>>,
                          <<"W.C08.negative_balance_allowed", ln.neg /\ Ledger(E, A, to, 0).neg # {}>>,
                          <<"W.C09.later_transactions_exist", (cutrun \/ to # MaxDay) /\ Cardinality(FSall) < Len(fr) /\ FSall # {}>>,
                          <<"W.C10.window_hides_and_shows_fractions", windowed /\ FSwin # {} /\ Cardinality(FSwin) < Len(fr)>>,
                          <<"W.C10.from_date_hides_history_that_counts", from # MinDay /\ Cardinality(FSwin) < Cardinality(FSall)>> } : cc[2]}}
              \* C06 within one run: without a from-date the summary is the fold of the very detail fractions that run shows
              ownFS  == {[ev |-> g[1], lot |-> g[2], amt |-> g[3], proc |-> g[4], cost |-> g[5], gain |-> g[6], long |-> g[7]] : g \in ToSet(ln.fr)}
              f10    == IF from # MinDay \/ (\E g \in ToSet(ln.fr) : ~(g[1] \in A)) \/ ToSet(ln.yr) = Summary(E, ownFS, 0) THEN {}
                        ELSE {"C06.summary_lines_are_sums_of_the_detail_fractions_shown"}
              views  == f1 \cup f1b \cup f1c \cup f2 \cup f3 \cup f4 \cup f5 \cup f6 \cup f7 \cup f8 \cup f9 \cup f10
          IN f0 \cup w
             \cup (IF to # MaxDay /\ CutAmbiguous(E, A, to)
                   THEN (IF views # {} THEN {"K.C10.D8.to_date_cut_stops_at_first_entry_dated_past_the_bound"} ELSE {"W.C10.mixed_offsets_around_to_date"})
                   ELSE views)

=============================================================================
