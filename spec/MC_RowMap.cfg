CONSTANTS NAssets = 3 Design = "per_asset"
INIT Init
NEXT Next
INVARIANT LinksRight
INVARIANT Emit
CHECK_DEADLOCK FALSE
