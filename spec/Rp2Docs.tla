------------------------------- MODULE Rp2Docs -------------------------------
(***************************************************************************)
(* The reports RP2 writes, as abstract documents (properties C13, C14,     *)
(* C15, C19, C20).  A document is what the harness read back from the ODS  *)
(* file, projected onto the lattice of Rp2Ledger: tables as sequences of   *)
(* rows, figures as lattice integers, "k/n" notes as integers, and every   *)
(* hyperlink as WHAT IT LEADS TO (asset, table, transaction found in the   *)
(* target row) - row numbers are never compared.                           *)
(*                                                                         *)
(* The ledger state the documents must render is pinned by observation:    *)
(* cd = what the very same run computed (the projection of ComputedData    *)
(* captured just before the generators ran: visible fractions fr, labels   *)
(* lab, yearly lines yr, balances bal, visible transactions ins / outs /   *)
(* intras, average price ppu).  Whether cd itself is right is the business *)
(* of C01..C10 (Trace_Ledger judges the same observation); the clauses     *)
(* here state that each report shows cd and the transactions E, each thing *)
(* once, in the right place, linked to the right row.                      *)
(*                                                                         *)
(* W = [from, to, country, sched, Q]: the window (local days), the country *)
(* plugin, the year->method schedule and the money denominator of the run. *)
(***************************************************************************)
EXTENDS Rp2Ledger

FailingD(S) == {c[1] : c \in {cc \in S : ~cc[2]}}
BagEq(s1, s2) == /\ Len(s1) = Len(s2)
                 /\ \A x \in ToSet(s1) \cup ToSet(s2) :
                       Cardinality({i \in 1..Len(s1) : s1[i] = x}) = Cardinality({i \in 1..Len(s2) : s2[i] = x})
NoRepeat(s) == Cardinality(ToSet(s)) = Len(s)
Map(s, f(_)) == [i \in 1..Len(s) |-> f(s[i])]

\* the account (10 * exchange + holder) and class of a transaction
TypeOf(x) == IF x.cls = "intra" THEN "move" ELSE x.type
FiatFeeIn(Q, x) == (IF x.fee > 0 THEN x.fee * x.price ELSE x.ffee) * Q
FiatOut(Q, x) == IF x.vout >= 0 THEN x.vout * Q ELSE x.amt * x.price * Q
FiatFeeOut(Q, x) == IF x.vfee >= 0 THEN x.vfee * Q ELSE x.fee * x.price * Q

---------------------------------------------------------------------------
(* C13: rp2_full_report, one asset.  a = [name, h, cd, doc]; doc = [ins,   *)
(* outs, intras, summary, balances, totals, avg, detail, present].         *)

\* running sum of amounts f over the transactions of class cls: with distinct instants it is the
\* sum up to and including the row's own transaction; transactions of the same instant may come
\* in either order
RunOK(E, A, cls, i, run, f(_)) ==
  LET S  == {j \in A : E[j].cls = cls}
      lo == Sum({j \in S : E[j].t < E[i].t}, f) + f(i)
      hi == Sum({j \in S : E[j].t <= E[i].t}, f)
  IN lo <= run /\ run <= hi

InRowOK(Q, E, A, r) ==
  LET x == E[r.tx] IN
  /\ r.t = x.t /\ r.acct = x.a1 /\ r.type = x.type /\ r.price = x.price /\ r.amt = x.amt
  /\ r.ffee = FiatFeeIn(Q, x) /\ r.fin = FiatIn(Q, x) /\ r.fwf = LotCost(Q, x)
  /\ r.taxable = IsEarn(x)

OutRowOK(Q, E, A, r) ==
  LET x == E[r.tx] IN
  /\ r.t = x.t /\ r.acct = x.a1 /\ r.type = x.type /\ r.price = x.price /\ r.amt = x.amt /\ r.fee = x.fee
  /\ r.fout = (IF x.type = "fee" THEN 0 ELSE FiatOut(Q, x)) /\ r.ffee = FiatFeeOut(Q, x)
  /\ r.taxable

IntraRowOK(Q, E, A, r) ==
  LET x == E[r.tx] IN
  /\ r.t = x.t /\ r.a1 = x.a1 /\ r.a2 = x.a2 /\ r.sent = x.amt /\ r.recv = x.amt - x.fee /\ r.fee = x.fee
  /\ (x.fee > 0 => r.price = x.price) /\ r.ffee = x.fee * x.price * Q
  /\ r.taxable = (x.fee > 0)

TimeSorted(E, rows) == \A i \in 1..(Len(rows) - 1) : E[rows[i].tx].t <= E[rows[i + 1].tx].t

\* the fraction tuple a detail row shows, comparable with cd.fr
DetailTuple(d) == <<d.ev, d.lot, d.amt, d.proc, d.cost, d.gain, d.long>>
DetailLabel(d) == <<d.ev, d.lot, d.evk, d.evn, d.lotk, d.lotn>>

DetailRowOK(Q, E, A, d) ==
  LET x == E[d.ev] IN
  /\ d.evt = x.t /\ d.evcls = x.cls /\ d.evtype = TypeOf(x)
  /\ d.evpct[1] * Total(x) = d.evpct[2] * d.amt
  /\ (x.cls # "intra" \/ x.fee > 0 => d.evprice = x.price)
  /\ IF d.lot = 0 THEN ~d.haslot
     ELSE LET y == E[d.lot] IN
          /\ d.haslot /\ d.lott = y.t /\ d.lotprice = y.price
          /\ d.lotpct[1] * y.amt = d.lotpct[2] * d.amt
          /\ d.lotfiat = d.cost
          /\ d.lotfee * y.amt = FiatFeeIn(Q, y) * d.amt

MethodsNamed(sched, txt) ==
  \* a single method: its name; a schedule: every method of it (how years are rendered is not prescribed)
  \A k \in 1..Len(sched) : \E p \in 1..Len(txt) : txt[p] = sched[k][2]

FullAssetFails(W, a) ==
  LET E   == Expand(a.h)
      A   == 1..Len(E)
      Q   == W.Q
      cd  == a.cd
      doc == a.doc
      idsOK(rows, cls) == \A i \in 1..Len(rows) : rows[i].tx \in A /\ E[rows[i].tx].cls = cls
  IN IF ~doc.present THEN {"C13.every_asset_has_its_sheets"}
     ELSE IF ~(idsOK(doc.ins, "in") /\ idsOK(doc.outs, "out") /\ idsOK(doc.intras, "intra"))
          THEN {"C13.every_row_describes_a_transaction_of_its_table"}
     ELSE IF \E q \in 1..Len(doc.detail) : ~(doc.detail[q].ev \in A /\ IsTaxable(E[doc.detail[q].ev])
                                              /\ (doc.detail[q].lot = 0 \/ (doc.detail[q].lot \in A /\ IsIn(E[doc.detail[q].lot]))))
          THEN {"C13.every_detail_row_describes_a_fraction"}
     ELSE
     LET soldOf(i) == SeqSum(cd.fr, LAMBDA f : IF f[2] = i THEN f[3] ELSE 0)
     IN FailingD({
       <<"C13.in_transactions_of_the_window_each_once", BagEq(Map(doc.ins, LAMBDA r : r.tx), cd.ins) /\ NoRepeat(Map(doc.ins, LAMBDA r : r.tx))>>,
       <<"C13.out_transactions_of_the_window_each_once", BagEq(Map(doc.outs, LAMBDA r : r.tx), cd.outs) /\ NoRepeat(Map(doc.outs, LAMBDA r : r.tx))>>,
       <<"C13.intra_transactions_of_the_window_each_once", BagEq(Map(doc.intras, LAMBDA r : r.tx), cd.intras) /\ NoRepeat(Map(doc.intras, LAMBDA r : r.tx))>>,
       <<"C13.transactions_time_sorted", TimeSorted(E, doc.ins) /\ TimeSorted(E, doc.outs) /\ TimeSorted(E, doc.intras)>>,
       <<"C13.in_rows_show_the_transaction", \A i \in 1..Len(doc.ins) : InRowOK(Q, E, A, doc.ins[i])>>,
       <<"C13.out_rows_show_the_transaction", \A i \in 1..Len(doc.outs) : OutRowOK(Q, E, A, doc.outs[i])>>,
       <<"C13.intra_rows_show_the_transaction", \A i \in 1..Len(doc.intras) : IntraRowOK(Q, E, A, doc.intras[i])>>,
       <<"C13.running_sums_correct",
            /\ \A i \in 1..Len(doc.ins) : RunOK(E, A, "in", doc.ins[i].tx, doc.ins[i].run, LAMBDA j : E[j].amt)
            /\ \A i \in 1..Len(doc.outs) : RunOK(E, A, "out", doc.outs[i].tx, doc.outs[i].run, LAMBDA j : E[j].amt)
                                          /\ RunOK(E, A, "out", doc.outs[i].tx, doc.outs[i].runfee, LAMBDA j : E[j].fee)
            /\ \A i \in 1..Len(doc.intras) : RunOK(E, A, "intra", doc.intras[i].tx, doc.intras[i].runfee, LAMBDA j : E[j].fee)>>,
       <<"C13.sold_percentage_is_the_consumed_part_of_the_lot",
            \A i \in 1..Len(doc.ins) : (doc.ins[i].hassold \/ soldOf(doc.ins[i].tx) = 0) /\ (doc.ins[i].hassold => doc.ins[i].sold = soldOf(doc.ins[i].tx))>>,
       <<"C13.fractions_of_the_window_each_once", BagEq(Map(doc.detail, DetailTuple), cd.fr)>>,
       <<"C13.fraction_labels_k_of_n", BagEq(Map(doc.detail, DetailLabel), cd.lab)>>,
       <<"C13.detail_rows_show_event_and_lot", \A q \in 1..Len(doc.detail) : DetailRowOK(Q, E, A, doc.detail[q])>>,
       <<"C13.detail_running_sum",
            \A q \in 1..Len(doc.detail) :
               IF q = 1 THEN doc.detail[1].run >= doc.detail[1].amt /\ (W.from = MinDay => doc.detail[1].run = doc.detail[1].amt)
               ELSE doc.detail[q].run = doc.detail[q - 1].run + doc.detail[q].amt>>,
       <<"C13.yearly_summary_shown", BagEq(doc.summary, cd.yr)>>,
       \* ... and that summary is the fold of ALL fractions of the run dated up to the to-date (not only the ones the window shows),
       \* for the years from the from-date's year on (not judged on the class of known finding D8)
       <<"C13.yearly_summary_covers_whole_years_from_window_start",
            (cd.has_all /\ ~CutAmbiguous(E, A, W.to)) =>
               LET FS == {[ev |-> f[1], lot |-> f[2], amt |-> f[3], proc |-> f[4], cost |-> f[5], gain |-> f[6], long |-> f[7]] :
                            f \in {g \in ToSet(cd.fr_all) : g[1] \in A /\ Day(E[g[1]]) <= W.to}}
               IN ToSet(doc.summary) = Summary(E, FS, FromYear(W.from)) /\ NoRepeat(doc.summary)>>,
       \* likewise the k/n labels count every fraction of the run dated up to the to-date, and the balances are the account flows up to it
       <<"C13.fraction_labels_count_history_up_to_to_date",
            (cd.has_all /\ ~CutAmbiguous(E, A, W.to) /\ \A q \in 1..Len(cd.fr_all) : cd.fr_all[q][1] \in A) =>
               LET fa    == [q \in 1..Len(cd.fr_all) |-> [ev |-> cd.fr_all[q][1], lot |-> cd.fr_all[q][2]]]
                   FSall == {q \in 1..Len(fa) : Day(E[fa[q].ev]) <= W.to}
                   FSwin == {q \in FSall : Day(E[fa[q].ev]) >= W.from}
               IN BagEq(Map(doc.detail, DetailLabel), SetToSeq({Labels(fa, FSall, q) : q \in FSwin}))>>,
       <<"C13.account_balances_equal_account_flows",
            ~CutAmbiguous(E, A, W.to) =>
               LET L == Ledger(E, A, W.to, 0)
               IN BagEq(doc.balances, SetToSeq({<<ac, L.bal[ac].acq, L.bal[ac].sent, L.bal[ac].recv, L.bal[ac].fin>> : ac \in DOMAIN L.bal}))>>,
       <<"C13.account_balances_shown", BagEq(doc.balances, cd.bal)>>,
       <<"C13.holder_totals_add_up",
            LET holders == {HolderOf(cd.bal[i][1]) : i \in 1..Len(cd.bal)}
            IN /\ {doc.totals[i][1] : i \in 1..Len(doc.totals)} = holders /\ Len(doc.totals) = Cardinality(holders)
               /\ \A i \in 1..Len(doc.totals) :
                     doc.totals[i][2] = SeqSum(cd.bal, LAMBDA b : IF HolderOf(b[1]) = doc.totals[i][1] THEN b[5] ELSE 0)>>,
       <<"C13.average_price_shown", doc.avg[1] * cd.ppu[2] = doc.avg[2] * cd.ppu[1]>>,
       \* the same tables under the properties whose figures they carry (each check judges its own clauses)
       <<"C05.report_shows_long_or_short_of_each_fraction",
            BagEq(Map(doc.detail, LAMBDA d : <<d.ev, d.lot, d.amt, d.long>>), Map(cd.fr, LAMBDA f : <<f[1], f[2], f[3], f[7]>>))>>,
       <<"C06.report_summary_equals_yearly_totals", BagEq(doc.summary, cd.yr)>>,
       <<"C07.report_balances_equal_computed_balances", BagEq(doc.balances, cd.bal)>>,
       <<"C07.report_holder_totals_add_up",
            LET holders == {HolderOf(cd.bal[i][1]) : i \in 1..Len(cd.bal)}
            IN /\ {doc.totals[i][1] : i \in 1..Len(doc.totals)} = holders /\ Len(doc.totals) = Cardinality(holders)
               /\ \A i \in 1..Len(doc.totals) :
                     doc.totals[i][2] = SeqSum(cd.bal, LAMBDA b : IF HolderOf(b[1]) = doc.totals[i][1] THEN b[5] ELSE 0)>> })
     \cup (IF \E q1, q2 \in 1..Len(doc.detail) : doc.detail[q1].long /\ ~doc.detail[q2].long /\ doc.detail[q2].lot # 0 THEN {"W.C05.report_with_long_and_short_fractions"} ELSE {})
     \cup (IF Len(doc.summary) >= 2 THEN {"W.C06.report_with_several_yearly_lines"} ELSE {})
     \cup (IF Len(doc.totals) >= 2 \/ Len(doc.balances) >= 2 THEN {"W.C07.report_with_several_accounts"} ELSE {})
     \cup (IF Len(doc.detail) >= 2 THEN {"W.C13.several_fractions"} ELSE {})
     \cup (IF Len(doc.ins) + Len(doc.outs) + Len(doc.intras) < Len(E) THEN {"W.C13.window_hides_transactions"} ELSE {})
     \cup (IF \E i \in 1..Len(doc.ins) : doc.ins[i].hassold /\ doc.ins[i].sold > 0 /\ doc.ins[i].sold < doc.ins[i].amt THEN {"W.C13.partially_sold_lot"} ELSE {})

(* the Summary sheet and the Legend of the full report.  as = the assets in processing    *)
(* order; sm = rows of the Summary sheet [asset, row, links]; lg = [method, from, to]     *)
(* with the texts split into tokens by the harness                                        *)
FullSharedFails(W, as, sm, lg) ==
  FailingD({
    <<"C13.summary_sheet_shows_yearly_lines_of_every_asset",
         \A k \in 1..Len(as) :
            BagEq(Map(SelectSeq(sm, LAMBDA s : s.asset = as[k].name), LAMBDA s : s.row), as[k].cd.yr)>>,
    <<"C13.summary_sheet_has_no_other_lines", \A i \in 1..Len(sm) : \E k \in 1..Len(as) : sm[i].asset = as[k].name>>,
    <<"C06.summary_sheet_equals_yearly_totals_of_every_asset",
         /\ \A k \in 1..Len(as) : BagEq(Map(SelectSeq(sm, LAMBDA s : s.asset = as[k].name), LAMBDA s : s.row), as[k].cd.yr)
         /\ \A i \in 1..Len(sm) : \E k \in 1..Len(as) : sm[i].asset = as[k].name>>,
    <<"C13.legend_states_the_accounting_methods", MethodsNamed(W.sched, lg.method)>>,
    <<"C13.legend_states_the_date_filters", lg.from \in ToSet(W.fromtxt) /\ lg.to \in ToSet(W.totxt)>> })

---------------------------------------------------------------------------
(* C19: hyperlinks.  A transaction link is [asset, table, id] (what the    *)
(* target row holds), no link is ["", "", 0], a link to a row that holds   *)
(* no transaction is ["?", "", 0].                                         *)
NoLink == <<"", "", 0>>
LinksOK(links, name, cls, id, visible) ==
  IF visible THEN links = << <<name, cls, id>> >>
  ELSE links = << >> \/ links = << NoLink >>

LinkAssetFails(W, a) ==
  LET E   == Expand(a.h)
      A   == 1..Len(E)
      doc == a.doc
      shown == ToSet(Map(doc.ins, LAMBDA r : r.tx)) \cup ToSet(Map(doc.outs, LAMBDA r : r.tx)) \cup ToSet(Map(doc.intras, LAMBDA r : r.tx))
  IN IF ~doc.present \/ \E q \in 1..Len(doc.detail) : ~(doc.detail[q].ev \in A) \/ ~(doc.detail[q].lot = 0 \/ doc.detail[q].lot \in A)
     THEN {"S.document_not_readable_for_links"}
     ELSE FailingD({
       <<"C19.taxable_event_link_leads_to_the_row_of_that_transaction",
            \A q \in 1..Len(doc.detail) :
               LET d == doc.detail[q] IN LinksOK(d.evlinks, a.name, E[d.ev].cls, d.ev, d.ev \in shown)>>,
       <<"C19.acquired_lot_link_leads_to_the_row_of_that_lot",
            \A q \in 1..Len(doc.detail) :
               LET d == doc.detail[q] IN d.lot # 0 => LinksOK(d.lotlinks, a.name, "in", d.lot, d.lot \in shown)>> })
     \cup (IF \E q \in 1..Len(doc.detail) : doc.detail[q].lot # 0 /\ ~(doc.detail[q].lot \in shown) THEN {"W.C19.hidden_lot"} ELSE {})
     \cup (IF \E q \in 1..Len(doc.detail) : doc.detail[q].lot # 0 /\ doc.detail[q].lot \in shown THEN {"W.C19.linked_lot"} ELSE {})

\* each Summary line links to the first gain/loss row of that year in that asset's Tax sheet
LinkSummaryFails(W, as, sm) ==
  LET AssetOf(name) == CHOOSE k \in 1..Len(as) : as[k].name = name
      lineOK(s) ==
        IF ~(\E k \in 1..Len(as) : as[k].name = s.asset) THEN FALSE
        ELSE LET a  == as[AssetOf(s.asset)]
                 E  == Expand(a.h)
                 dt == a.doc.detail
                 ofYear == {q \in 1..Len(dt) : dt[q].ev \in 1..Len(E) /\ Year(E[dt[q].ev]) = s.row[1]}
             IN IF ofYear = {} THEN s.links = << >> \/ s.links = << <<"", 0>> >>
                ELSE s.links = << <<s.asset, Min(ofYear)>> >>
  IN FailingD({ <<"C19.summary_line_links_to_first_row_of_its_year", \A i \in 1..Len(sm) : lineOK(sm[i])>> })
     \cup (IF Len(sm) >= 2 THEN {"W.C19.several_summary_lines"} ELSE {})

---------------------------------------------------------------------------
(* C14: tax_report_us / tax_report_ie.  tx = [sheets, rows]; a row is      *)
(* [sheet, asset, ev, lot, amt, proc, cost, gain, long, evcls, evtype,     *)
(* sold, acquired, haslot, evk, evn, lotk, lotn].                          *)
SheetOf(country, ty) ==
  CASE ty = "sell"     -> "Capital Gains"
    [] ty = "gift"     -> "Gifts"
    [] ty = "donate"   -> "Donations"
    [] ty \in {"fee", "lost", "move"} -> "Investment Expenses"
    [] ty = "airdrop"  -> "Airdrops"
    [] ty = "hardfork" -> "Hard Forks"
    [] ty = "income"   -> "Income"
    [] ty = "interest" -> "Interest"
    [] ty = "mining"   -> "Mining"
    [] ty = "staking"  -> "Staking"
    [] ty = "wages"    -> "Wages"
    [] OTHER           -> "?"

TaxRowTuple(r) == <<r.ev, r.lot, r.amt, r.proc, r.cost, r.gain, r.long>>
TaxRowLabel(r) == <<r.ev, r.lot, r.evk, r.evn, r.lotk, r.lotn>>

TaxReportFails(W, as, tx) ==
  LET rowsOf(name) == SelectSeq(tx.rows, LAMBDA r : r.asset = name)
      known(r) == \E k \in 1..Len(as) : as[k].name = r.asset
      EOf(r) == Expand(as[CHOOSE k \in 1..Len(as) : as[k].name = r.asset].h)
      refOK(r) == known(r) /\ r.ev \in 1..Len(EOf(r)) /\ (r.lot = 0 \/ r.lot \in 1..Len(EOf(r)))
  IN IF \E i \in 1..Len(tx.rows) : ~refOK(tx.rows[i]) THEN {"C14.every_row_describes_a_fraction"}
     ELSE FailingD({
       <<"C14.every_fraction_on_exactly_one_row",
            \A k \in 1..Len(as) : BagEq(Map(rowsOf(as[k].name), TaxRowTuple), as[k].cd.fr)>>,
       <<"C14.fraction_labels_k_of_n",
            \A k \in 1..Len(as) : BagEq(Map(rowsOf(as[k].name), TaxRowLabel), as[k].cd.lab)>>,
       <<"C05.tax_report_shows_long_or_short_of_each_fraction",
            \A k \in 1..Len(as) : BagEq(Map(rowsOf(as[k].name), LAMBDA r : <<r.ev, r.lot, r.amt, r.long>>),
                                        Map(as[k].cd.fr, LAMBDA f : <<f[1], f[2], f[3], f[7]>>))>>,
       <<"C14.row_on_the_sheet_of_its_transaction_type",
            \A i \in 1..Len(tx.rows) : LET r == tx.rows[i] IN r.sheet = SheetOf(W.country, TypeOf(EOf(r)[r.ev]))>>,
       <<"C14.transaction_type_and_dates_shown",
            \A i \in 1..Len(tx.rows) :
               LET r == tx.rows[i]
                   x == EOf(r)[r.ev]
               IN /\ r.evcls = x.cls /\ r.evtype = TypeOf(x) /\ r.sold = Day(x)
                  /\ IF r.lot = 0 THEN ~r.haslot ELSE r.haslot /\ r.acquired = Day(EOf(r)[r.lot])>>,
       <<"C14.proceeds_and_cost_basis_follow_the_transactions",
            \A i \in 1..Len(tx.rows) :
               LET r == tx.rows[i]
                   x == EOf(r)[r.ev]
               IN /\ r.proc * Total(x) = TaxFiat(W.Q, x) * r.amt
                  /\ (r.lot # 0 => r.cost * EOf(r)[r.lot].amt = LotCost(W.Q, EOf(r)[r.lot]) * r.amt)
                  /\ r.gain = r.proc - r.cost>>,
       <<"C14.sheets_without_rows_omitted", ToSet(tx.sheets) = {tx.rows[i].sheet : i \in 1..Len(tx.rows)} /\ NoRepeat(tx.sheets)>> })
     \cup (IF \E i, j \in 1..Len(tx.rows) : tx.rows[i].sheet = tx.rows[j].sheet /\ tx.rows[i].asset # tx.rows[j].asset THEN {"W.C14.assets_share_a_sheet"} ELSE {})
     \cup (IF Cardinality(ToSet(tx.sheets)) >= 2 THEN {"W.C14.several_sheets"} ELSE {})

---------------------------------------------------------------------------
(* C15: open_positions (runs without from-date).  op = [asset_rows,        *)
(* exchange_rows, inputs]; rows carry bal (units), unit (rational of money *)
(* units per crypto unit), cost (money units), weight (rational).          *)
Consumed(cd, i) == SeqSum(cd.fr, LAMBDA f : IF f[2] = i THEN f[3] ELSE 0)
\* cost, fees included, of the unconsumed parts of the lots acquired up to the to-date
Unrealized(W, a) ==
  LET E == Expand(a.h)
      lots == {i \in 1..Len(E) : IsIn(E[i]) /\ Day(E[i]) <= W.to}
  IN Sum(lots, LAMBDA i : (LotCost(W.Q, E[i]) * (E[i].amt - Consumed(a.cd, i))) \div E[i].amt)
AcquiredCost(W, a) ==
  LET E == Expand(a.h)
  IN Sum({i \in 1..Len(E) : IsIn(E[i]) /\ Day(E[i]) <= W.to}, LAMBDA i : LotCost(W.Q, E[i]))
PosBal(a) == SelectSeq(a.cd.bal, LAMBDA b : b[5] > 0)
\* the rational w = <<n, d>> (in lowest terms) is part / whole; written without products so that it stays within TLC's integers
RECURSIVE GCD(_, _)
GCD(x, y) == IF y = 0 THEN x ELSE GCD(y, x % y)
IsShare(w, part, whole) ==
  IF whole <= 0 \/ part < 0 THEN FALSE
  ELSE LET g == GCD(whole, part) IN w[1] = part \div g /\ w[2] = whole \div g

OpenPositionsFails(W, as, op) ==
  LET held(a)  == Unrealized(W, a) > 0
      total    == SeqSum(as, LAMBDA a : Unrealized(W, a))
      totBal(a) == SeqSum(PosBal(a), LAMBDA b : b[5])
      arows(a) == SelectSeq(op.asset_rows, LAMBDA r : r.asset = a.name)
      erows(a) == SelectSeq(op.exchange_rows, LAMBDA r : r.asset = a.name)
      holderBal(a, hd) == SeqSum(PosBal(a), LAMBDA b : IF HolderOf(b[1]) = hd THEN b[5] ELSE 0)
  IN FailingD({
       <<"C15.only_assets_with_unsold_holdings_listed",
            \A i \in 1..Len(op.asset_rows) : \E k \in 1..Len(as) : as[k].name = op.asset_rows[i].asset /\ held(as[k])>>,
       <<"C15.every_holder_with_positive_balance_once",
            \A k \in 1..Len(as) : held(as[k]) =>
               BagEq(Map(arows(as[k]), LAMBDA r : <<r.holder, r.bal>>),
                     SetToSeq({<<hd, holderBal(as[k], hd)>> : hd \in {HolderOf(PosBal(as[k])[i][1]) : i \in 1..Len(PosBal(as[k]))}}))>>,
       <<"C15.every_account_with_positive_balance_once",
            \A k \in 1..Len(as) : held(as[k]) =>
               BagEq(Map(erows(as[k]), LAMBDA r : <<10 * r.exch + r.holder, r.bal>>), Map(PosBal(as[k]), LAMBDA b : <<b[1], b[5]>>))>>,
       <<"C15.unrealized_cost_is_cost_of_unsold_lot_parts",
            \A k \in 1..Len(as) : held(as[k]) =>
               /\ SeqSum(arows(as[k]), LAMBDA r : r.cost) = Unrealized(W, as[k])
               /\ SeqSum(erows(as[k]), LAMBDA r : r.cost) = Unrealized(W, as[k])>>,
       <<"C15.realized_plus_unrealized_is_total_acquired_cost",
            \A k \in 1..Len(as) : held(as[k]) =>
               SeqSum(as[k].cd.fr, LAMBDA f : f[5]) + SeqSum(arows(as[k]), LAMBDA r : r.cost) = AcquiredCost(W, as[k])>>,
       \* the unsold parts are what is left after every disposal took exactly what left the holder, and they are what the accounts hold
       <<"C15.lots_consumed_equal_amounts_disposed",
            \A k \in 1..Len(as) :
               LET E == Expand(as[k].h)
                   disp == {i \in 1..Len(E) : IsDisposal(E[i]) /\ Day(E[i]) <= W.to}
               IN ~CutAmbiguous(E, 1..Len(E), W.to) =>
                    SeqSum(as[k].cd.fr, LAMBDA f : IF f[2] # 0 THEN f[3] ELSE 0) = Sum(disp, LAMBDA i : Total(E[i]))>>,
       <<"C15.balances_reconcile_with_unsold_lots",
            \A k \in 1..Len(as) :
               LET E == Expand(as[k].h)
                   lots == {i \in 1..Len(E) : IsIn(E[i]) /\ Day(E[i]) <= W.to}
               IN ~CutAmbiguous(E, 1..Len(E), W.to) =>
                    SeqSum(as[k].cd.bal, LAMBDA b : b[5]) = Sum(lots, LAMBDA i : E[i].amt) - SeqSum(as[k].cd.fr, LAMBDA f : IF f[2] # 0 THEN f[3] ELSE 0)>>,
       <<"C15.per_unit_cost_is_unrealized_cost_over_balance",
            \A k \in 1..Len(as) : held(as[k]) =>
               /\ \A i \in 1..Len(arows(as[k])) : arows(as[k])[i].unit[1] * totBal(as[k]) = arows(as[k])[i].unit[2] * Unrealized(W, as[k])
               /\ \A i \in 1..Len(erows(as[k])) : erows(as[k])[i].unit[1] * totBal(as[k]) = erows(as[k])[i].unit[2] * Unrealized(W, as[k])>>,
       <<"C15.weights_are_shares_of_total_unrealized_cost",
            /\ \A i \in 1..Len(op.asset_rows) : IsShare(op.asset_rows[i].weight, op.asset_rows[i].cost, total)
            /\ \A i \in 1..Len(op.exchange_rows) : IsShare(op.exchange_rows[i].weight, op.exchange_rows[i].cost, total)
            /\ (op.asset_rows # << >> => SeqSum(op.asset_rows, LAMBDA r : r.cost) = total)>> })
     \cup (IF Cardinality({op.asset_rows[i].holder : i \in 1..Len(op.asset_rows)}) >= 2 THEN {"W.C15.several_holders"} ELSE {})
     \cup (IF \E k \in 1..Len(as) : held(as[k]) /\ SeqSum(as[k].cd.fr, LAMBDA f : f[5]) > 0 THEN {"W.C15.partly_sold_asset"} ELSE {})

---------------------------------------------------------------------------
(* C20: tax_report_jp.  jp = [asset_sheets, summary_sheets]; an asset      *)
(* sheet is [name, asset, year, txs, close, open_crypto, open_yen,         *)
(* open_zero, open_has_ref]; references are <<sheet, column, row>>.        *)
JpShown(a) == \* transactions a JP sheet lists: acquisitions, disposals, transfers that carry a fee
  LET E == Expand(a.h)
  IN {i \in ToSet(a.cd.ins) \cup ToSet(a.cd.outs) \cup ToSet(a.cd.intras) : E[i].cls # "intra" \/ E[i].fee > 0}
JpYears(a) == LET E == Expand(a.h) IN {Year(E[i]) : i \in ToSet(a.cd.ins) \cup ToSet(a.cd.outs) \cup ToSet(a.cd.intras)}
JpYearsListed(a) == LET E == Expand(a.h) IN {Year(E[i]) : i \in JpShown(a)}

\* the columns the property names, for one transaction (sold yen of donations and the sold side of
\* income rows are not prescribed: they are left out of the comparison)
JpRowOf(W, x, md) ==
  <<md[1], md[2], TypeOf(x),
    IF x.cls = "in" THEN x.amt ELSE 0,
    IF x.cls = "in" THEN x.amt * x.price * W.Q ELSE 0,
    CASE x.cls = "out" -> x.amt + x.fee [] x.cls = "intra" -> x.fee [] OTHER -> 0,
    CASE x.cls = "out" /\ x.type # "donate" -> x.amt * x.price * W.Q [] x.cls = "intra" -> x.fee * x.price * W.Q [] OTHER -> 0,
    CASE x.cls = "intra" -> 0 [] x.cls = "in" -> FiatFeeIn(W.Q, x) [] OTHER -> FiatFeeOut(W.Q, x)>>
JpRowShown(r) ==
  <<r.month, r.day, IF r.type = "fee" /\ r.client = "Transfer" THEN "move" ELSE r.type,
    IF r.haspur THEN r.pamt ELSE 0, IF r.haspur THEN r.pyen ELSE 0,
    IF r.haspur THEN 0 ELSE r.samt,
    IF r.haspur \/ r.type = "donate" THEN 0 ELSE r.syen,
    r.fee>>

JpReportFails(W, as, jp, md) ==
  \* md[k][i] = <<month, day>> of transaction i of asset k (calendar facts supplied by the harness)
  LET sheetsOf(k) == SelectSeq(jp.asset_sheets, LAMBDA s : s.asset = as[k].name)
      sheetOfYear(k, y) == CHOOSE s \in ToSet(sheetsOf(k)) : s.year = y
      hasSheet(k, y) == \E s \in ToSet(sheetsOf(k)) : s.year = y
      expRows(k, y) == LET E == Expand(as[k].h)
                       IN SetToSeq({<<i, JpRowOf(W, E[i], md[k][i])>> : i \in {j \in JpShown(as[k]) : Year(E[j]) = y}})
      prevYears(k, y) == {s.year : s \in {t \in ToSet(sheetsOf(k)) : t.year < y}}
      openOK(k, s) ==
        IF prevYears(k, s.year) = {} THEN s.open_zero /\ ~s.open_has_ref
        ELSE LET p == sheetOfYear(k, Max(prevYears(k, s.year)))
             IN /\ s.open_crypto = <<p.name, "I", p.close>>
                /\ s.open_yen = <<p.name, "I", p.close + 1>>
  IN FailingD({
       <<"C20.one_sheet_per_asset_and_year_with_transactions",
            \A k \in 1..Len(as) :
               /\ {s.year : s \in ToSet(sheetsOf(k))} = JpYearsListed(as[k]) \cup {y \in JpYears(as[k]) : hasSheet(k, y)}
               /\ Len(sheetsOf(k)) = Cardinality({s.year : s \in ToSet(sheetsOf(k))})>>,
       <<"C20.each_transaction_of_the_year_listed_once",
            \A k \in 1..Len(as) : \A s \in ToSet(sheetsOf(k)) :
               BagEq(Map(SelectSeq(s.txs, LAMBDA r : r.haspur \/ r.hassale), JpRowShown), Map(expRows(k, s.year), LAMBDA p : p[2]))>>,
       <<"C20.opening_balance_refers_to_most_recent_earlier_year",
            \A k \in 1..Len(as) : \A s \in ToSet(sheetsOf(k)) : openOK(k, s)>>,
       <<"C20.one_summary_sheet_per_year",
            /\ {s.year : s \in ToSet(jp.summary_sheets)} = {s.year : s \in ToSet(jp.asset_sheets)}
            /\ Len(jp.summary_sheets) = Cardinality({s.year : s \in ToSet(jp.summary_sheets)})>>,
       <<"C20.summary_line_per_asset_points_at_its_year_sheet",
            \A s \in ToSet(jp.summary_sheets) :
               /\ BagEq(Map(s.lines, LAMBDA ln : ln.asset),
                        SetToSeq({as[k].name : k \in {kk \in 1..Len(as) : hasSheet(kk, s.year)}}))
               /\ \A i \in 1..Len(s.lines) :
                     LET ln == s.lines[i]
                         ks == {k \in 1..Len(as) : as[k].name = ln.asset /\ hasSheet(k, s.year)}
                     IN ks # {} /\
                        LET sh == sheetOfYear(CHOOSE k \in ks : TRUE, s.year)
                        IN /\ \A c \in 1..4 : ln.refs[c] = sh.name
                           /\ ln.cols = <<"G", "I", "I", "I">>
                           /\ ln.rows[2] = sh.close /\ ln.rows[3] = sh.close + 1 /\ ln.rows[1] = sh.close + 1>> })
     \cup (IF \E k \in 1..Len(as) : Len(sheetsOf(k)) >= 2 THEN {"W.C20.asset_with_several_years"} ELSE {})
     \cup (IF \E k \in 1..Len(as) : \E s \in ToSet(sheetsOf(k)) : prevYears(k, s.year) # {} /\ ~((s.year - 1) \in prevYears(k, s.year)) THEN {"W.C20.sparse_years"} ELSE {})
=============================================================================
