------------------------------ MODULE Rp2Sheet ------------------------------
(***************************************************************************)
(* The input sheet of one asset as RP2 must read it (properties C11, C12): *)
(* a table automaton over the rows of the sheet and, for every data row,   *)
(* the transaction it denotes under the column layout of the config file.  *)
(*                                                                         *)
(* A row is [k, tbl, cells]: k = "begin" (first cell holds the keyword of  *)
(* table tbl), "end" (TABLE END), "blank" (first cell empty), "hdr" (a     *)
(* header line), "junk" (any other text) or "data".  cells[j] is the cell  *)
(* in column j-1: [k, n, s, off, tz] with k = "e" empty, "n" number n,     *)
(* "s" string s, "t" timestamp (instant n in whole seconds plus us         *)
(* microseconds, UTC offset off, tz = written with a time zone).  Numbers are lattice integers; the unit of a column  *)
(* is that of the field mapped to it (amount U, price P, fiat U*P).        *)
(* layout[tbl] maps field names to 0-based columns.                        *)
(***************************************************************************)
EXTENDS Integers, Sequences, FiniteSets, TLC, SequencesExt, FiniteSetsExt

EarnTypesS == {"airdrop", "hardfork", "income", "interest", "mining", "staking", "wages"}
InTypesS   == EarnTypesS \cup {"buy", "gift", "donate"}
OutTypesS  == {"sell", "gift", "donate", "fee", "lost", "staking"}

EmptyCell == [k |-> "e", n |-> 0, s |-> "", off |-> 0, tz |-> FALSE, us |-> 0]
Cell(r, lay, f) == IF f \in DOMAIN lay /\ lay[f] + 1 <= Len(r.cells) THEN r.cells[lay[f] + 1] ELSE EmptyCell

IsNumOrEmpty(c) == c.k \in {"n", "e"}
IsPos(c)     == c.k = "n" /\ c.n > 0
IsNonNeg(c)  == c.k = "n" /\ c.n >= 0
OptPos(c)    == c.k = "e" \/ IsPos(c)
OptNonNeg(c) == c.k = "e" \/ IsNonNeg(c)
Val(c)       == IF c.k = "n" THEN c.n ELSE 0
Str(c)       == IF c.k = "s" THEN c.s ELSE ""
Known(c, S)  == c.k = "s" /\ c.s \in S
GoodTime(c)  == c.k = "t" /\ c.tz

(* K = [asset, assets, exchanges, holders]: the sheet's asset and what the config declares *)
Common(K, r, lay) ==
  /\ GoodTime(Cell(r, lay, "timestamp"))
  /\ Known(Cell(r, lay, "asset"), K.assets) /\ Cell(r, lay, "asset").s = K.asset

ValidIn(K, r, lay) ==
  LET ty == Cell(r, lay, "transaction_type") IN
  /\ Common(K, r, lay)
  /\ Known(Cell(r, lay, "exchange"), K.exchanges) /\ Known(Cell(r, lay, "holder"), K.holders)
  /\ Known(ty, InTypesS)
  /\ IsPos(Cell(r, lay, "spot_price")) /\ IsPos(Cell(r, lay, "crypto_in"))
  /\ OptNonNeg(Cell(r, lay, "crypto_fee")) /\ OptNonNeg(Cell(r, lay, "fiat_fee"))
  /\ ~(Cell(r, lay, "crypto_fee").k = "n" /\ Cell(r, lay, "fiat_fee").k = "n")
  /\ OptPos(Cell(r, lay, "fiat_in_no_fee")) /\ OptPos(Cell(r, lay, "fiat_in_with_fee"))

ValidOut(K, r, lay) ==
  LET ty == Cell(r, lay, "transaction_type") IN
  /\ Common(K, r, lay)
  /\ Known(Cell(r, lay, "exchange"), K.exchanges) /\ Known(Cell(r, lay, "holder"), K.holders)
  /\ Known(ty, OutTypesS)
  /\ IF ty.s = "fee"
     THEN /\ IsNonNeg(Cell(r, lay, "spot_price")) /\ Val(Cell(r, lay, "crypto_out_no_fee")) = 0
          /\ IsNumOrEmpty(Cell(r, lay, "crypto_out_no_fee")) /\ IsPos(Cell(r, lay, "crypto_fee"))
     ELSE /\ IsPos(Cell(r, lay, "spot_price")) /\ IsPos(Cell(r, lay, "crypto_out_no_fee"))
          /\ OptNonNeg(Cell(r, lay, "crypto_fee"))
  /\ OptPos(Cell(r, lay, "crypto_out_with_fee")) /\ OptPos(Cell(r, lay, "fiat_out_no_fee"))
  /\ OptNonNeg(Cell(r, lay, "fiat_fee"))

ValidIntra(K, r, lay) ==
  LET sent == Cell(r, lay, "crypto_sent")
      recv == Cell(r, lay, "crypto_received")
      sp   == Cell(r, lay, "spot_price") IN
  /\ Common(K, r, lay)
  /\ Known(Cell(r, lay, "from_exchange"), K.exchanges) /\ Known(Cell(r, lay, "from_holder"), K.holders)
  /\ Known(Cell(r, lay, "to_exchange"), K.exchanges) /\ Known(Cell(r, lay, "to_holder"), K.holders)
  /\ IsPos(sent) /\ IsNonNeg(recv) /\ sent.n >= recv.n
  /\ OptNonNeg(sp)
  /\ (sent.n > recv.n => IsPos(sp))

Valid(K, tbl, r, lay) ==
  /\ r.k = "data"
  /\ CASE tbl = "in" -> ValidIn(K, r, lay) [] tbl = "out" -> ValidOut(K, r, lay) [] OTHER -> ValidIntra(K, r, lay)

(* The transaction a valid data row denotes (row = 1-based row number of the sheet), with *)
(* the documented defaults for empty / unmapped optional cells.  Fiat values are in units *)
(* U*P, so amount * price needs no scaling.                                               *)
TxIn(r, lay, row) ==
  LET amt  == Val(Cell(r, lay, "crypto_in"))
      pr   == Val(Cell(r, lay, "spot_price"))
      cfee == Val(Cell(r, lay, "crypto_fee"))
      ffee == IF Cell(r, lay, "crypto_fee").k = "n" THEN cfee * pr ELSE Val(Cell(r, lay, "fiat_fee"))
      fin  == IF Cell(r, lay, "fiat_in_no_fee").k = "n" THEN Val(Cell(r, lay, "fiat_in_no_fee")) ELSE amt * pr
      fwf  == IF Cell(r, lay, "fiat_in_with_fee").k = "n" THEN Val(Cell(r, lay, "fiat_in_with_fee")) ELSE fin + ffee
      ts   == Cell(r, lay, "timestamp")
  IN [row |-> row, t |-> ts.n, us |-> ts.us, off |-> ts.off, type |-> Str(Cell(r, lay, "transaction_type")),
      exch |-> Str(Cell(r, lay, "exchange")), holder |-> Str(Cell(r, lay, "holder")),
      price |-> pr, amt |-> amt, cfee |-> cfee, ffee |-> ffee, fin |-> fin, fwf |-> fwf,
      uid |-> Cell(r, lay, "unique_id")]

TxOut(r, lay, row) ==
  LET amt  == Val(Cell(r, lay, "crypto_out_no_fee"))
      pr   == Val(Cell(r, lay, "spot_price"))
      cfee == Val(Cell(r, lay, "crypto_fee"))
      ts   == Cell(r, lay, "timestamp")
  IN [row |-> row, t |-> ts.n, us |-> ts.us, off |-> ts.off, type |-> Str(Cell(r, lay, "transaction_type")),
      exch |-> Str(Cell(r, lay, "exchange")), holder |-> Str(Cell(r, lay, "holder")),
      price |-> pr, amt |-> amt, cfee |-> cfee,
      owf  |-> IF Cell(r, lay, "crypto_out_with_fee").k = "n" THEN Val(Cell(r, lay, "crypto_out_with_fee")) ELSE amt + cfee,
      fout |-> IF Cell(r, lay, "fiat_out_no_fee").k = "n" THEN Val(Cell(r, lay, "fiat_out_no_fee")) ELSE amt * pr,
      ffee |-> IF Cell(r, lay, "fiat_fee").k = "n" THEN Val(Cell(r, lay, "fiat_fee")) ELSE cfee * pr,
      uid |-> Cell(r, lay, "unique_id"), par |-> 0]

TxIntra(r, lay, row) ==
  LET sent == Val(Cell(r, lay, "crypto_sent"))
      recv == Val(Cell(r, lay, "crypto_received"))
      pr   == Val(Cell(r, lay, "spot_price"))
      ts   == Cell(r, lay, "timestamp")
  IN [row |-> row, t |-> ts.n, us |-> ts.us, off |-> ts.off,
      fe |-> Str(Cell(r, lay, "from_exchange")), fh |-> Str(Cell(r, lay, "from_holder")),
      te |-> Str(Cell(r, lay, "to_exchange")), th |-> Str(Cell(r, lay, "to_holder")),
      price |-> pr, sent |-> sent, recv |-> recv, ffee |-> (sent - recv) * pr,
      uid |-> Cell(r, lay, "unique_id")]

(* C11, last sentence: a crypto fee on an acquisition is the acquisition (fee valued in   *)
(* fiat, no crypto fee left on it) plus an artificial fee-only disposal at the same       *)
(* instant from the same account.                                                         *)
SplitIn(x)  == [x EXCEPT !.cfee = 0]
ArtFee(x)   == [row |-> 0, t |-> x.t, us |-> x.us, off |-> x.off, type |-> "fee", exch |-> x.exch, holder |-> x.holder,
                price |-> x.price, amt |-> 0, cfee |-> x.cfee, owf |-> x.cfee, fout |-> 0, ffee |-> x.cfee * x.price,
                uid |-> x.uid, par |-> x.row]

---------------------------------------------------------------------------
(* The table automaton.  status: "ok", "error" (the input must be rejected) or "free"     *)
(* (a situation the documented format does not resolve: nothing is required).             *)
InitP == [mode |-> "none", cnt |-> 0, status |-> "ok", why |-> "", ins |-> << >>, outs |-> << >>, intras |-> << >>,
          arts |-> << >>, begun |-> {}]

Err(st, why)  == [st EXCEPT !.status = "error", !.why = why]
NonEmpty(st, tbl) == CASE tbl = "in" -> st.ins # << >> [] tbl = "out" -> st.outs # << >> [] OTHER -> st.intras # << >>

Collect(st, tbl, r, lay, row) ==
  CASE tbl = "in" ->
         LET x == TxIn(r, lay, row)
         IN IF x.cfee > 0 THEN [st EXCEPT !.ins = Append(@, SplitIn(x)), !.arts = Append(@, ArtFee(x)), !.cnt = @ + 1]
            ELSE [st EXCEPT !.ins = Append(@, x), !.cnt = @ + 1]
    [] tbl = "out" -> [st EXCEPT !.outs = Append(@, TxOut(r, lay, row)), !.cnt = @ + 1]
    [] OTHER       -> [st EXCEPT !.intras = Append(@, TxIntra(r, lay, row)), !.cnt = @ + 1]

ReadRow(K, L, st, r, row) ==
  IF st.status # "ok" THEN st
  ELSE IF st.mode # "none" THEN
    CASE r.k = "begin" -> Err(st, "table keyword inside a table")
      [] r.k = "blank" -> Err(st, "empty first cell inside a table")
      [] r.k = "end"   -> [st EXCEPT !.mode = "none"]
      [] OTHER ->
           IF st.cnt = 1
           THEN \* the line after the keyword is the header; a line that reads as a transaction there is an error
                IF Valid(K, st.mode, r, L[st.mode]) THEN Err(st, "data with no header")
                ELSE IF r.k = "data" THEN [st EXCEPT !.status = "free", !.why = "malformed data row in header position"]
                ELSE [st EXCEPT !.cnt = 2]
           ELSE IF Valid(K, st.mode, r, L[st.mode]) THEN Collect(st, st.mode, r, L[st.mode], row)
                ELSE Err(st, "row is not a valid transaction of its table")
  ELSE
    CASE r.k = "end"   -> Err(st, "TABLE END outside a table")
      [] r.k = "blank" -> st
      [] r.k = "begin" ->
           IF NonEmpty(st, r.tbl) THEN Err(st, "table found more than once")
           ELSE IF r.tbl \in st.begun THEN [st EXCEPT !.status = "free", !.why = "empty table repeated"]
           ELSE [st EXCEPT !.mode = r.tbl, !.cnt = 1, !.begun = @ \cup {r.tbl}]
      [] OTHER -> Err(st, "text outside a table")

Finish(st) ==
  IF st.status # "ok" THEN st
  ELSE IF st.mode # "none" THEN Err(st, "TABLE END missing")
  ELSE IF st.ins = << >> THEN Err(st, "IN table missing or empty")
  ELSE st

RECURSIVE ParseFrom(_, _, _, _, _)
ParseFrom(K, L, st, rows, i) ==
  IF i > Len(rows) THEN Finish(st) ELSE ParseFrom(K, L, ReadRow(K, L, st, rows[i], i), rows, i + 1)
Parse(K, L, rows) == ParseFrom(K, L, InitP, rows, 1)

---------------------------------------------------------------------------
(* Judging what the real parser returned: obs = [status, ins, outs, intras, ex].          *)
(* Artificial disposals are recognised by par # 0; their internal ids are not compared.   *)
FailingS(S) == {c[1] : c \in {cc \in S : ~cc[2]}}
Count(s, x) == Cardinality({i \in 1..Len(s) : s[i] = x})
SameSet(s, exp) == Len(s) = Len(exp) /\ \A x \in ToSet(s) \cup ToSet(exp) : Count(s, x) = Count(exp, x)     \* equal as bags
\* which acquisition an artificial disposal belongs to is not observable: only that it is artificial
Norm(s) == [i \in 1..Len(s) |-> [s[i] EXCEPT !.par = IF @ # 0 THEN 1 ELSE 0]]

SheetFails(K, L, rows, obs) ==
  LET p == Parse(K, L, rows) IN
  IF p.status = "free" THEN {"W.free_case_not_judged"}
  ELSE IF p.status = "error" THEN
       (IF obs.status = "ok" THEN {"C12.malformed_input_rejected"} ELSE {"W.C12.fault_rejected"})
  ELSE IF obs.status # "ok" THEN {"C11.valid_input_accepted"}
  ELSE FailingS({
         <<"C11.numbers_read_with_eleven_decimals", obs.ex>>,
         <<"C11.in_rows_read_once_from_assigned_columns", SameSet(obs.ins, p.ins)>>,
         <<"C11.out_rows_read_once_from_assigned_columns", SameSet(Norm(obs.outs), Norm(p.outs \o p.arts))>>,
         <<"C11.intra_rows_read_once_from_assigned_columns", SameSet(obs.intras, p.intras)>>,
         <<"C11.crypto_fee_modelled_as_artificial_fee_disposal",
              SameSet(SelectSeq(Norm(obs.outs), LAMBDA x : x.par # 0), Norm(p.arts))>> })
       \cup (IF p.arts # << >> THEN {"W.C11.artificial_fee"} ELSE {})
       \cup (IF Len(p.ins) + Len(p.outs) + Len(p.intras) >= 2 THEN {"W.C11.several_rows"} ELSE {})
=============================================================================
