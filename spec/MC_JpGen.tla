------------------------------- MODULE MC_JpGen -------------------------------
(***************************************************************************)
(* The year chain of tax_report_jp as a design (property C20): for every   *)
(* asset the generator groups the transactions by year, writes one sheet   *)
(* per year, and chains each sheet's opening balance to the closing        *)
(* balance cells of the sheet written before it; each sheet also adds one  *)
(* line to the summary sheet of its year (created when first needed).      *)
(*                                                                         *)
(* Every initial state is one scenario: per asset the set of years with an *)
(* acquisition and the set of years with a disposal (the earliest year has *)
(* an acquisition).  Design = "sorted" is the generator as it is: years in *)
(* calendar order, previous sheet = the sheet of the year visited before.  *)
(* Design = "first_seen" is the chain that follows the order in which      *)
(* years are first met in the in table and then the out table and names    *)
(* the previous sheet <asset>_<year - 1>: TLC must find ChainRight         *)
(* violated for it (sensitivity control).  The scenarios are printed and   *)
(* replayed into the real rp2 by the harness (docs pipeline, C20).         *)
(***************************************************************************)
EXTENDS Integers, Sequences, FiniteSets, TLC, Json, SequencesExt, FiniteSetsExt

CONSTANTS NAssets, Design
Years == {2019, 2020, 2021, 2023}

VARIABLES scen,      \* 1..NAssets -> [buy : SUBSET Years, sell : SUBSET Years]
          a,         \* asset being generated
          i,         \* position in the asset's year order
          sheets,    \* set of [asset, year, prevname, prevrow, close]: prevname = <<asset, year>> the opening balance refers to (<<0, 0>>: none)
          summary    \* year -> sequence of assets listed in the summary sheet of that year
vars == <<scen, a, i, sheets, summary>>

AllYears(s) == s.buy \cup s.sell
Sorted(S)   == SetToSortSeq(S, <)
\* order in which the years are first met: the in table (time order), then the out table
FirstSeen(s) == Sorted(s.buy) \o Sorted(s.sell \ s.buy)
Order(s)     == IF Design = "sorted" THEN Sorted(AllYears(s)) ELSE FirstSeen(s)
\* number of rows a year sheet lists, hence where its closing balance cells are
NTx(s, y)    == (IF y \in s.buy THEN 1 ELSE 0) + (IF y \in s.sell THEN 1 ELSE 0)
Close(s, y)  == 30 + NTx(s, y)

Init == /\ scen \in [1..NAssets -> [buy : SUBSET Years, sell : SUBSET Years]]
        /\ \A k \in 1..NAssets : scen[k].buy # {} /\ Min(AllYears(scen[k])) \in scen[k].buy
        /\ a = 1 /\ i = 1 /\ sheets = {} /\ summary = [y \in Years |-> << >>]

Step == /\ a <= NAssets
        /\ LET s   == scen[a]
               ord == Order(s)
               y   == ord[i]
               prev == IF i = 1 THEN [name |-> <<0, 0>>, row |-> 0]
                       ELSE [name |-> <<a, IF Design = "sorted" THEN ord[i - 1] ELSE y - 1>>, row |-> Close(s, ord[i - 1])]
           IN /\ sheets' = sheets \cup {[asset |-> a, year |-> y, prevname |-> prev.name, prevrow |-> prev.row, close |-> Close(s, y)]}
              /\ summary' = [summary EXCEPT ![y] = Append(@, a)]
              /\ IF i < Len(ord) THEN i' = i + 1 /\ a' = a ELSE i' = 1 /\ a' = a + 1
        /\ UNCHANGED scen

Next == Step
Spec == Init /\ [][Next]_vars

Done == a > NAssets
\* C20: one sheet per asset and year with transactions; the opening balance refers to the closing cells of the most recent
\* earlier year sheet of the same asset (none for the first); one summary line per asset in the summary sheet of each of its years
ChainRight ==
  Done =>
    /\ \A k \in 1..NAssets : {sh.year : sh \in {t \in sheets : t.asset = k}} = AllYears(scen[k])
    /\ \A sh \in sheets :
          LET earlier == {y \in AllYears(scen[sh.asset]) : y < sh.year}
          IN IF earlier = {} THEN sh.prevname = <<0, 0>>
             ELSE sh.prevname = <<sh.asset, Max(earlier)>> /\ sh.prevrow = Close(scen[sh.asset], Max(earlier))
    /\ \A y \in Years : /\ ToSet(summary[y]) = {k \in 1..NAssets : y \in AllYears(scen[k])}
                        /\ Len(summary[y]) = Cardinality(ToSet(summary[y]))

Emit == ~(a = 1 /\ i = 1) \/ PrintT("J|" \o ToJson(scen))
=============================================================================
