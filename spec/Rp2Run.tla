------------------------------- MODULE Rp2Run -------------------------------
(***************************************************************************)
(* One invocation of a country entry point (rp2_us, rp2_jp, rp2_es,        *)
(* rp2_ie, rp2_generic) as properties C12, C16, C17 and C18 see it: the    *)
(* options, whether the input is valid, and what the run leaves behind -   *)
(* exit status, error messages, files, effects on the outside world.       *)
(*                                                                         *)
(* The product is described by constants stated from the documentation     *)
(* and the property texts (not derived from the code): which methods a     *)
(* country accepts, which reports it generates, its default language.      *)
(* Which languages ship templates is an observation of the installed data  *)
(* directory (field shipped of the run record).                            *)
(***************************************************************************)
EXTENDS Integers, Sequences, FiniteSets, TLC, SequencesExt, FiniteSetsExt

Countries == {"us", "jp", "es", "ie", "generic"}
AllMethods == {"fifo", "lifo", "hifo", "lofo"}
AcceptedMethods(c) == IF c \in {"us", "generic"} THEN AllMethods ELSE {"fifo"}
DefaultMethod(c)   == "fifo"
DefaultLang(c)     == CASE c = "us" -> "en" [] c = "jp" -> "ja" [] c = "es" -> "es" [] c = "ie" -> "en_IE" [] OTHER -> "en"
Generators(c)      == {"open_positions", "rp2_full_report"}
                      \cup (CASE c = "us" -> {"tax_report_us"} [] c = "ie" -> {"tax_report_ie"} [] c = "jp" -> {"tax_report_jp"} [] OTHER -> {})
NoDay == 0 - 1000000
NoTo  == 1000000

(* r = [country, method, lang, from, to, neg, sched, prefix, shipped, fault, pre, minyear] *)
(*   method, lang: "" = not given; from/to: NoDay/NoTo = not given; sched: sequence of     *)
(*   <<year, method>> from the [accounting_methods] section (<< >>: none); shipped: the    *)
(*   languages for which every report of the country has a template; fault: "" or the name *)
(*   of the fault injected into an otherwise valid input; pre: files already in the output *)
(*   directory before the run; minyear: calendar year of the earliest taxable event.       *)
EffLang(r)   == IF r.lang = "" THEN DefaultLang(r.country) ELSE r.lang
MethodTag(r) == IF r.sched # << >> THEN (IF Len(r.sched) = 1 THEN r.sched[1][2] ELSE "mixed")
                ELSE IF r.method = "" THEN DefaultMethod(r.country) ELSE r.method

\* option combinations the documentation does not settle: nothing is required of them
FreeCase(r) ==
  \/ r.country = "jp" /\ r.from # NoDay /\ r.to # NoTo                \* tax_report_jp declines a from-date together with a to-date
  \/ \E k \in 1..Len(r.sched) : r.sched[k][2] \notin AcceptedMethods(r.country)   \* schedule naming a method the country does not accept
  \/ r.fault = "config_bom"                                           \* a config file that starts with a byte order mark: whether it is read or rejected is not stated

Supported(r) ==
  /\ r.method = "" \/ r.method \in AcceptedMethods(r.country)
  /\ ~(r.method # "" /\ r.sched # << >>)
  /\ EffLang(r) \in r.shipped
  /\ r.from <= r.to
  /\ r.sched = << >> \/ r.sched[1][1] <= r.minyear        \* the schedule names a method for the year of the earliest taxable event

Expected(r) == {r.prefix \o MethodTag(r) \o "_" \o g \o ".ods" : g \in Generators(r.country)}

FailingR(S) == {c[1] : c \in {cc \in S : ~cc[2]}}

(* o = [exit, nerr, files, readable, effects, inputs_unchanged]: exit status, number of    *)
(* error messages, names in the output directory after the run, whether every .ods there   *)
(* is a readable document, audit events [k, loc] of the run (k: "read", "write", "mkdir",  *)
(* "rename", "remove", "socket", "process"; loc: "out", "log", "input", "other"), and      *)
(* whether spreadsheet and config are byte-identical afterwards.                           *)
RunFails(r, o) ==
  IF FreeCase(r) THEN {"W.free_case_not_judged"}
  ELSE IF r.lang = "" /\ DefaultLang(r.country) \notin r.shipped THEN {"C16.default_language_ships_templates"}
  ELSE IF r.fault = "" /\ Supported(r) THEN
       FailingR({
         <<"C16.supported_run_exits_zero", o.exit = 0>>,
         <<"C16.every_configured_report_written", Expected(r) \subseteq ToSet(o.files)>>,
         <<"C16.reports_are_readable_documents", o.readable>>,
         <<"C16.nothing_else_written", ToSet(o.files) \subseteq Expected(r) \cup ToSet(r.pre)>> })
       \cup {"W.C16.supported_run"}
  ELSE FailingR({
         <<"C12.bad_input_exits_non_zero", o.exit # 0>>,
         <<"C12.bad_input_reports_an_error", o.nerr > 0>>,
         <<"C12.bad_input_writes_no_report", ToSet(o.files) \subseteq ToSet(r.pre)>> })
       \cup {"W.C12.rejected_run"}

\* C18: the only effects are reads anywhere, and writes / renames / removals under the output
\* directory and ./log; no socket, name resolution or process creation has an action at all
AllowedEffect(e) ==
  \/ e.k = "read"
  \/ e.k \in {"write", "mkdir", "rename", "remove"} /\ e.loc \in {"out", "log"}
EffectFails(o) ==
  FailingR({
    <<"C18.no_network_no_process", \A i \in 1..Len(o.effects) : o.effects[i].k \notin {"socket", "process"}>>,
    <<"C18.writes_confined_to_output_and_log", \A i \in 1..Len(o.effects) : o.effects[i].k \in {"socket", "process"} \/ AllowedEffect(o.effects[i])>>,
    <<"C18.input_files_unchanged", o.inputs_unchanged>> })
  \cup (IF \E i \in 1..Len(o.effects) : o.effects[i].k = "write" /\ o.effects[i].loc = "out" THEN {"W.C18.report_written"} ELSE {})

\* C18, static half: Import(module, name) facts extracted from the source of the rp2 package
Banned == {"socket", "ssl", "http", "urllib", "ftplib", "smtplib", "poplib", "imaplib", "nntplib", "telnetlib", "xmlrpc", "socketserver",
           "asyncio", "selectors", "requests", "httpx", "aiohttp", "urllib3", "websocket", "websockets", "paramiko", "subprocess", "multiprocessing",
           "pty", "webbrowser", "smtpd", "cgi", "wsgiref"}
ImportFails(imports) ==
  IF \A i \in 1..Len(imports) : imports[i].top \notin Banned THEN {"W.C18.imports_scanned"} ELSE {"C18.source_imports_no_networking_facility"}

(* C17: a group of runs on the same abstract input.  g = [base, variants]: every variant   *)
(* [kind, same_bytes, computed, digests] must report the computed results of the base run  *)
(* for every asset both processed; variants whose concrete input is byte-identical (repeat,*)
(* hash seed, dirty output directory) must also produce identical documents.               *)
GroupFails(g) ==
  LET cmp(v) == \A a \in DOMAIN v.computed \cap DOMAIN g.base.computed : v.computed[a] = g.base.computed[a]
      dig(v) == ~v.same_bytes \/ v.digests = g.base.digests
  IN FailingR({
       <<"C17.same_results_across_repeats_seeds_and_output_dirs",
            \A i \in 1..Len(g.variants) : g.variants[i].kind \in {"repeat", "hashseed", "dirty"} => cmp(g.variants[i])>>,
       <<"C17.same_documents_across_repeats_seeds_and_output_dirs", \A i \in 1..Len(g.variants) : dig(g.variants[i])>>,
       <<"C17.same_results_for_reordered_rows_and_tables",
            \A i \in 1..Len(g.variants) : g.variants[i].kind \in {"rows", "tables"} => cmp(g.variants[i])>>,
       <<"C17.same_results_whatever_other_assets_are_processed",
            \A i \in 1..Len(g.variants) : g.variants[i].kind = "subset" => cmp(g.variants[i])>>,
       \* ... and the asset's own sheets of the full report are the same document fragments (same rows in the input, same cells, same links)
       <<"C17.same_sheets_whatever_other_assets_are_processed",
            \A i \in 1..Len(g.variants) : g.variants[i].kind = "subset" =>
               \A a \in DOMAIN g.variants[i].own_sheets \cap DOMAIN g.base.own_sheets : g.variants[i].own_sheets[a] = g.base.own_sheets[a]>>,
       <<"C17.all_variants_succeed", g.base.exit = 0 /\ \A i \in 1..Len(g.variants) : g.variants[i].exit = 0>> })
     \cup {"W.C17.group"}
=============================================================================
