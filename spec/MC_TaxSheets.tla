----------------------------- MODULE MC_TaxSheets -----------------------------
(***************************************************************************)
(* The per-sheet row counters of tax_report_us / tax_report_ie as a design *)
(* (property C14: "no row is lost or overwritten when several assets share *)
(* a sheet").  The generator visits the assets in order; for each asset it *)
(* first enlarges every sheet by the number of that asset's fractions of   *)
(* the sheet's types (plus a margin), then writes each fraction on the row *)
(* the sheet's counter points at and advances the counter.  The counters   *)
(* are shared by all assets (Design = "shared_counter": the generator as   *)
(* it is); a counter that starts again at the header for every asset       *)
(* (Design = "per_asset_counter") overwrites the rows of earlier assets -  *)
(* TLC must refute it (sensitivity control).                               *)
(*                                                                         *)
(* Every initial state is one scenario: per asset, how many fractions of   *)
(* each of three sheet types it has.  The scenarios are printed and        *)
(* replayed into the real rp2 by the C14 check.                            *)
(***************************************************************************)
EXTENDS Integers, Sequences, FiniteSets, TLC, Json, FiniteSetsExt

CONSTANTS NAssets, Design
Types  == {"sell", "gift", "interest"}      \* Capital Gains, Gifts, Interest
Header == 7
Margin == 2

VARIABLES scen,     \* 1..NAssets -> [Types -> 0..2]
          a,        \* asset being written
          counter,  \* sheet -> next free row
          size,     \* sheet -> rows allocated
          cells     \* sheet -> (row -> <<asset, k>>): what each written row holds
vars == <<scen, a, counter, size, cells>>

Init == /\ scen \in [1..NAssets -> [Types -> 0..2]]
        /\ a = 1
        /\ counter = [ty \in Types |-> Header]
        /\ size = [ty \in Types |-> Header]
        /\ cells = [ty \in Types |-> << >>]

Step == /\ a <= NAssets
        /\ LET start(ty) == IF Design = "shared_counter" THEN counter[ty] ELSE Header
               n(ty) == scen[a][ty]
           IN /\ size' = [ty \in Types |-> size[ty] + Margin + n(ty) + 1]
              /\ cells' = [ty \in Types |-> [r \in start(ty)..(start(ty) + n(ty) - 1) |-> <<a, r - start(ty) + 1>>] @@ cells[ty]]
              /\ counter' = [ty \in Types |-> start(ty) + n(ty)]
        /\ a' = a + 1
        /\ UNCHANGED scen
Next == Step
Spec == Init /\ [][Next]_vars

Done == a > NAssets
RECURSIVE TotalTo(_, _)
TotalTo(ty, k) == IF k = 0 THEN 0 ELSE scen[k][ty] + TotalTo(ty, k - 1)
Total(ty) == TotalTo(ty, NAssets)
\* every fraction of every asset is on exactly one row of its sheet, inside the allocated rows; sheets without rows can be told apart
NoRowLost ==
  Done => \A ty \in Types :
            /\ {cells[ty][r] : r \in DOMAIN cells[ty]} = {<<k, j>> : k \in 1..NAssets, j \in 1..2} \cap {<<k, j>> \in (1..NAssets) \X (1..2) : j <= scen[k][ty]}
            /\ Cardinality(DOMAIN cells[ty]) = Total(ty)
            /\ \A r \in DOMAIN cells[ty] : r < size[ty]
            /\ (counter[ty] = Header) <=> (\A k \in 1..NAssets : scen[k][ty] = 0)

Emit == ~(a = 1) \/ PrintT("X|" \o ToJson(scen))
=============================================================================
