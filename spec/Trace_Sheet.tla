----------------------------- MODULE Trace_Sheet -----------------------------
(***************************************************************************)
(* Trace validation for the input parser (C11, C12): each trace is one     *)
(* sheet as it was written cell by cell ([K, L, rows]) together with what  *)
(* the real parse_ods returned for it (obs).  One behaviour per trace, one *)
(* step; the verdict is the set of failing clauses of Rp2Sheet!SheetFails. *)
(***************************************************************************)
EXTENDS Rp2Sheet, Json, IOUtils, TLCExt

Traces == JsonDeserialize(IOEnv.TRACE_FILE)
N      == Len(Traces)

VARIABLES tid, done, fails
vars == <<tid, done, fails>>

\* JSON arrays become sequences: the sets the specification needs
KOf(tr) == [asset |-> tr.K.asset, assets |-> ToSet(tr.K.assets), exchanges |-> ToSet(tr.K.exchanges), holders |-> ToSet(tr.K.holders)]

Init == tid \in 1..N /\ done = FALSE /\ fails = {}
Step == /\ ~done
        /\ LET tr == Traces[tid] IN fails' = SheetFails(KOf(tr), tr.L, tr.rows, tr.obs)
        /\ done' = TRUE
        /\ UNCHANGED tid
Spec == Init /\ [][Step]_vars

Verdict == done => PrintT("V|" \o ToString(tid) \o "|" \o ToJson({<<c, 1>> : c \in fails}))
=============================================================================
