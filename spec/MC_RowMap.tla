------------------------------ MODULE MC_RowMap ------------------------------
(***************************************************************************)
(* The transaction -> row map of rp2_full_report as a design (property     *)
(* C19): the generator writes, asset after asset, the In-Out rows of the   *)
(* visible transactions and records for each the row it got, in a map      *)
(* keyed by the transaction's ROW ID in the input sheet (transactions are  *)
(* hashed by row id only, and row ids are unique only within one asset's   *)
(* sheet); then it writes the gain/loss rows of that asset and links each  *)
(* lot cell to the row the map holds for the lot.                          *)
(*                                                                         *)
(* Every initial state is one scenario: per asset, how many leading blank  *)
(* rows its input sheet has (which shifts its row ids), how many lots, and *)
(* which lots the from-date hides.  One sale per asset consumes all its    *)
(* lots.  Design = "per_asset" is the generator as it is (the map starts   *)
(* empty for every asset); Design = "shared" is the map that survives from *)
(* one asset to the next - TLC must find LinksRight violated for it (the   *)
(* sensitivity control of the check).  The scenarios are printed and       *)
(* replayed into the real rp2 by the harness (docs pipeline, C19).         *)
(***************************************************************************)
EXTENDS Integers, Sequences, FiniteSets, TLC, Json

CONSTANTS NAssets, Design

Scenario == [off : 0..1, nlots : 1..2, hidden : SUBSET (1..2)]
VARIABLES scen,     \* 1..NAssets -> Scenario
          a,        \* asset being generated
          pc,       \* "tables" | "links" | "done"
          map,      \* row id -> <<asset, lot>> whose In-Out row is recorded under that row id
          links     \* set of [asset, lot, target]: target = what the lot's link leads to, <<0, 0>>: no link
vars == <<scen, a, pc, map, links>>

\* row id of lot j in the input sheet of an asset with `off` leading blank rows (keyword row, header row, then data rows)
RowId(s, j) == s.off + 2 + j
Lots(s)     == 1..s.nlots
Visible(s)  == {j \in Lots(s) : j \notin s.hidden}

Init == /\ scen \in [1..NAssets -> Scenario]
        /\ \A k \in 1..NAssets : scen[k].hidden \subseteq Lots(scen[k])
        /\ a = 1 /\ pc = "tables" /\ map = << >> /\ links = {}

Restrict(f, S) == [x \in S |-> f[x]]
Tables == /\ pc = "tables"
          /\ LET s    == scen[a]
                 base == IF Design = "per_asset" THEN << >> ELSE map
                 new  == [r \in {RowId(s, j) : j \in Visible(s)} |-> <<a, CHOOSE j \in Visible(s) : RowId(s, j) = r>>]
             IN map' = new @@ base
          /\ pc' = "links"
          /\ UNCHANGED <<scen, a, links>>

Links == /\ pc = "links"
         /\ LET s == scen[a]
            IN links' = links \cup {[asset |-> a, lot |-> j,
                                     target |-> IF RowId(s, j) \in DOMAIN map THEN map[RowId(s, j)] ELSE <<0, 0>>] : j \in Lots(s)}
         /\ IF a < NAssets THEN a' = a + 1 /\ pc' = "tables" ELSE a' = a /\ pc' = "done"
         /\ UNCHANGED <<scen, map>>

Next == Tables \/ Links
Spec == Init /\ [][Next]_vars

\* C19: a lot cell leads to the row of that very lot of that asset, or carries no link when the filter hides the lot
LinksRight == \A l \in links :
                 IF l.lot \in Visible(scen[l.asset]) THEN l.target = <<l.asset, l.lot>> ELSE l.target = <<0, 0>>

Emit == ~(a = 1 /\ pc = "tables") \/ PrintT("M|" \o ToJson(scen))
=============================================================================
