------------------------------ MODULE Trace_Run ------------------------------
(***************************************************************************)
(* Trace validation of end-to-end runs against Rp2Run.  A trace is one of  *)
(*   [kind |-> "run", r, o]        one invocation (C12, C16)               *)
(*   [kind |-> "effects", r, o]    one audited invocation (C18)            *)
(*   [kind |-> "imports", imports] import facts of the source tree (C18)   *)
(*   [kind |-> "group", g]         runs on the same abstract input (C17)   *)
(***************************************************************************)
EXTENDS Rp2Run, Json, IOUtils, TLCExt

Traces == JsonDeserialize(IOEnv.TRACE_FILE)
N      == Len(Traces)
VARIABLES tid, done, fails
vars == <<tid, done, fails>>

\* JSON arrays become sequences: the set the specification needs
Fix(r) == [r EXCEPT !.shipped = ToSet(@)]

Init == tid \in 1..N /\ done = FALSE /\ fails = {}
Step == /\ ~done
        /\ LET tr == Traces[tid] IN
           fails' = CASE tr.kind = "run"     -> RunFails(Fix(tr.r), tr.o)
                      [] tr.kind = "effects" -> EffectFails(tr.o)
                      [] tr.kind = "imports" -> ImportFails(tr.imports)
                      [] OTHER               -> GroupFails(tr.g)
        /\ done' = TRUE
        /\ UNCHANGED tid
Verdict == done => PrintT("V|" \o ToString(tid) \o "|" \o ToJson({<<c, 1>> : c \in fails}))
=============================================================================
