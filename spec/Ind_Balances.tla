----------------------------- MODULE Ind_Balances -----------------------------
(***************************************************************************)
(* The account ledger of balance.py with UNBOUNDED amounts: every          *)
(* transaction is posted to the (exchange, holder) accounts it names -     *)
(* an acquisition credits one account, a disposal debits amount + fee, a   *)
(* transfer debits what was sent and credits what was received (the        *)
(* difference is the fee, which is disposed of) - while the lots lose      *)
(* exactly what was disposed of.  MC_Ledger checks Reconcile with TLC on   *)
(* amounts 1..2; this module removes that bound: IndInv is an inductive    *)
(* invariant over arbitrary non-negative integers, discharged by Apalache, *)
(* and it implies what C07 says: per account, final = acquired + received *)
(* - sent, and the balances add up to what the lots still hold.  Three     *)
(* accounts (the sums are written out).  A transfer to the same account is *)
(* allowed (credit and debit on one account: the fee alone leaves it).     *)
(*                                                                         *)
(* harness/gen.py (prove_balances, run by check C07) runs the obligations  *)
(* and a sensitivity control: a transfer whose credit overwrites the debit *)
(* of a same-account transfer (NextBroken, seeded change C07_m3) must NOT  *)
(* preserve IndInv.                                                        *)
(***************************************************************************)
EXTENDS Integers

Acct == 1..3

VARIABLES
  \* @type: Int -> Int;
  acquired,   \* per account: sum of acquisitions
  \* @type: Int -> Int;
  sent,       \* per account: sum of what left it (disposals with their fee, transfers out)
  \* @type: Int -> Int;
  received,   \* per account: sum of what transfers brought in
  \* @type: Int -> Int;
  final,      \* per account: running balance
  \* @type: Int;
  lots        \* what the lots still hold: acquired minus everything disposed of (disposals, fees, transfer fees)

\* @type: (Int -> Int) => Int;
S(f) == f[1] + f[2] + f[3]

TypeOK == /\ acquired \in [Acct -> Int] /\ sent \in [Acct -> Int] /\ received \in [Acct -> Int] /\ final \in [Acct -> Int]
          /\ lots \in Int

Init == /\ acquired = [a \in Acct |-> 0] /\ sent = [a \in Acct |-> 0] /\ received = [a \in Acct |-> 0] /\ final = [a \in Acct |-> 0]
        /\ lots = 0

Acquire == \E a \in Acct : \E x \in Int :
  /\ x > 0
  /\ acquired' = [acquired EXCEPT ![a] = @ + x]
  /\ final' = [final EXCEPT ![a] = @ + x]
  /\ lots' = lots + x
  /\ UNCHANGED <<sent, received>>

Dispose == \E a \in Acct : \E x, fee \in Int :
  /\ x >= 0 /\ fee >= 0 /\ x + fee > 0
  /\ sent' = [sent EXCEPT ![a] = @ + x + fee]
  /\ final' = [final EXCEPT ![a] = @ - (x + fee)]
  /\ lots' = lots - (x + fee)
  /\ UNCHANGED <<acquired, received>>

\* debit first, then credit, each on the running value (a transfer to the same account nets to minus the fee)
Transfer == \E a, b \in Acct : \E out, in \in Int :
  /\ in > 0 /\ out >= in
  /\ sent' = [sent EXCEPT ![a] = @ + out]
  /\ received' = [received EXCEPT ![b] = @ + in]
  /\ final' = [[final EXCEPT ![a] = @ - out] EXCEPT ![b] = @ + in]
  /\ lots' = lots - (out - in)
  /\ UNCHANGED acquired

Next == Acquire \/ Dispose \/ Transfer

\* sensitivity control: both updates computed from the old balance, the credit written last (it overwrites the debit when a = b)
TransferBroken == \E a, b \in Acct : \E out, in \in Int :
  /\ in > 0 /\ out >= in
  /\ sent' = [sent EXCEPT ![a] = @ + out]
  /\ received' = [received EXCEPT ![b] = @ + in]
  /\ final' = [a2 \in Acct |-> IF a2 = b THEN final[b] + in ELSE IF a2 = a THEN final[a] - out ELSE final[a2]]
  /\ lots' = lots - (out - in)
  /\ UNCHANGED acquired
NextBroken == Acquire \/ Dispose \/ TransferBroken

---------------------------------------------------------------------------
IndInv ==
  /\ TypeOK
  /\ \A a \in Acct : /\ acquired[a] >= 0 /\ sent[a] >= 0 /\ received[a] >= 0
                     /\ final[a] = acquired[a] + received[a] - sent[a]
  /\ lots = S(acquired) + S(received) - S(sent)

IndInit == IndInv

\* what C07 says, implied by IndInv
BalancesEqualFlows == \A a \in Acct : final[a] = acquired[a] + received[a] - sent[a]
Reconcile          == S(final) = lots
Safety == BalancesEqualFlows /\ Reconcile
=============================================================================
