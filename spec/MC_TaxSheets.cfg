CONSTANTS NAssets = 3 Design = "shared_counter"
INIT Init
NEXT Next
INVARIANT NoRowLost
CHECK_DEADLOCK FALSE
